#!/usr/bin/env python3
"""Audit: for every property, list the callee contracts its proofs use at call
sites (from the evidence files) whose post-conditions are not charged to that
property.  A change that falsifies such a post-condition is reported by the
properties it is charged to, not by this one (DESIGN.md 9.3/9.5: the most
frequent reason for a seeded change to be missed).  Informational: the output is
reviewed by hand; safety-only uses (C11/C12/C13) are expected to appear."""
import glob, json, re, sys
repo = sys.argv[1] if len(sys.argv) > 1 else '/repo'
funcs = {}
for pkg in ('glow', 'server', 'client'):
    cur = None
    for l in open(f'{repo}/{pkg}/contracts_verif.go'):
        t = l.strip()
        m = re.match(r'//@ func (.+)$', t)
        if m:
            cur = {'props': set(), 'tags': set(), 'n': 0, 'untagged': 0}
            funcs[pkg + '.' + m.group(1).strip()] = cur
            continue
        if cur is None:
            continue
        if t.startswith('//@ end') or re.match(r'//@ (pure|lemma|lock|writers|callers|sequence|dominated|globalinit)', t):
            cur = None
            continue
        m = re.match(r'//@\s+props (.*)', t)
        if m:
            cur['props'] |= set(m.group(1).split())
        m = re.match(r'//@\s+ensures(\[([^\]]*)\])?', t)
        if m:
            cur['n'] += 1
            if m.group(2):
                cur['tags'] |= {x.strip() for x in m.group(2).split(',')}
            else:
                cur['untagged'] += 1
for ev in sorted(glob.glob('/verif/evidence/C*.json')):
    e = json.load(open(ev))
    p = e['property_id']
    used = [t.split(': ', 1)[1] for t in e['coverage']['trusted_base'] if t.startswith('callee contract used')]
    out = []
    for u in used:
        c = funcs.get(u)
        if not c or c['n'] == 0:
            continue
        if p in c['tags'] or (p in c['props'] and c['untagged'] > 0):
            continue
        out.append(f"{u}  (charged to: {sorted((c['tags'] | c['props']) - {'private', 'assumed'})})")
    if out:
        print(p)
        for o in out:
            print('   ', o)
