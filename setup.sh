#!/bin/sh
# Build the govc engine offline from files on disk only.
set -e
cd "$(dirname "$0")"
export GOFLAGS=-mod=mod GOPROXY=off GOSUMDB=off GOTOOLCHAIN=local
mkdir -p bin evidence replays
(cd govc && go build -o ../bin/govc .)
echo "govc built"
