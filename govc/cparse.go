package main

// Contract language: lexer, Pratt parser, and the contract-file reader.
// Contracts live in comment-only files (//go:build verif) as //@ lines.

import (
	"fmt"
	"math/big"
	"os"
	"path/filepath"
	"strings"
	"unicode"
)

// ---------------------------------------------------------------------------
// AST

type Expr interface{}

type EIdent struct{ Name string }
type EInt struct{ V *big.Int }
type EStr struct{ S string }
type ESel struct {
	X    Expr
	Name string
}
type EIndex struct {
	X, I Expr // I == nil means [*]
}
type ECall struct {
	Fn    string
	Args  []Expr
	Named []namedArg
}
type namedArg struct {
	Name string
	E    Expr
}
type EUn struct {
	Op string
	X  Expr
}
type EBin struct {
	Op   string
	X, Y Expr
}
type ECond struct{ C, A, B Expr }
type EQuant struct {
	Forall   bool
	Vars     []qvar
	Body     Expr
	Triggers []Expr // optional {e1, e2}
	// AltTriggers: further trigger sets, each an alternative multi-pattern
	AltTriggers [][]Expr
}
type qvar struct {
	Name string
	Type TypeExpr
}

// TypeExpr: textual type, resolved later against the package scope.
type TypeExpr struct{ Text string }

// ---------------------------------------------------------------------------
// lexer

type tok struct {
	kind string // ident int str op eof
	text string
}

func lex(s string) ([]tok, error) {
	var out []tok
	i := 0
	ops := []string{"==>", "<==>", "::", "==", "!=", "<=", ">=", "&&", "||", "<<", ">>", "&^", "+", "-", "*", "/", "%", "&", "|", "^", "<", ">", "!", "(", ")", "[", "]", ",", ".", "?", ":", "=", "{", "}"}
	for i < len(s) {
		c := s[i]
		switch {
		case c == ' ' || c == '\t' || c == '\n' || c == '\r':
			i++
		case unicode.IsLetter(rune(c)) || c == '_' || c == '$':
			j := i + 1
			for j < len(s) && (unicode.IsLetter(rune(s[j])) || unicode.IsDigit(rune(s[j])) || s[j] == '_' || s[j] == '$') {
				j++
			}
			out = append(out, tok{"ident", s[i:j]})
			i = j
		case c >= '0' && c <= '9':
			j := i + 1
			for j < len(s) && (unicode.IsDigit(rune(s[j])) || unicode.IsLetter(rune(s[j])) || s[j] == '_') {
				j++
			}
			out = append(out, tok{"int", s[i:j]})
			i = j
		case c == '"':
			j := i + 1
			for j < len(s) && s[j] != '"' {
				j++
			}
			if j >= len(s) {
				return nil, fmt.Errorf("unterminated string")
			}
			out = append(out, tok{"str", s[i+1 : j]})
			i = j + 1
		default:
			matched := false
			for _, op := range ops {
				if strings.HasPrefix(s[i:], op) {
					// longest match: ops list has longer ones first for shared prefixes
					best := op
					for _, op2 := range ops {
						if len(op2) > len(best) && strings.HasPrefix(s[i:], op2) {
							best = op2
						}
					}
					out = append(out, tok{"op", best})
					i += len(best)
					matched = true
					break
				}
			}
			if !matched {
				return nil, fmt.Errorf("unexpected character %q in %q", c, s)
			}
		}
	}
	out = append(out, tok{"eof", ""})
	return out, nil
}

type parser struct {
	toks []tok
	pos  int
	src  string
}

func (p *parser) peek() tok { return p.toks[p.pos] }
func (p *parser) next() tok { t := p.toks[p.pos]; p.pos++; return t }
func (p *parser) isOp(s string) bool {
	t := p.peek()
	return t.kind == "op" && t.text == s
}
func (p *parser) expectOp(s string) {
	if !p.isOp(s) {
		panic(fmt.Errorf("expected %q, got %q in contract expression %q", s, p.peek().text, p.src))
	}
	p.pos++
}

func parseExpr(src string) (e Expr, err error) {
	toks, err := lex(src)
	if err != nil {
		return nil, err
	}
	p := &parser{toks: toks, src: src}
	defer func() {
		if r := recover(); r != nil {
			if er, ok := r.(error); ok {
				err = er
				return
			}
			panic(r)
		}
	}()
	e = p.expr(0)
	if p.peek().kind != "eof" {
		return nil, fmt.Errorf("trailing input %q in %q", p.peek().text, src)
	}
	return e, nil
}

var binPrec = map[string]int{
	"<==>": 1, "==>": 2, "?": 3, "||": 4, "&&": 5,
	"==": 6, "!=": 6, "<": 6, "<=": 6, ">": 6, ">=": 6,
	"+": 7, "-": 7, "|": 7, "^": 7,
	"*": 8, "/": 8, "%": 8, "<<": 8, ">>": 8, "&": 8, "&^": 8,
}

func (p *parser) expr(minPrec int) Expr {
	lhs := p.unary()
	for {
		t := p.peek()
		if t.kind != "op" {
			return lhs
		}
		prec, ok := binPrec[t.text]
		if !ok || prec < minPrec {
			return lhs
		}
		p.pos++
		switch t.text {
		case "==>":
			rhs := p.expr(prec) // right assoc
			lhs = &EBin{"==>", lhs, rhs}
		case "?":
			a := p.expr(0)
			p.expectOp(":")
			b := p.expr(prec)
			lhs = &ECond{lhs, a, b}
		default:
			rhs := p.expr(prec + 1)
			lhs = &EBin{t.text, lhs, rhs}
		}
	}
}

func (p *parser) unary() Expr {
	t := p.peek()
	if t.kind == "op" {
		switch t.text {
		case "!", "-", "^":
			p.pos++
			return &EUn{t.text, p.unary()}
		}
	}
	return p.postfix(p.primary())
}

func (p *parser) primary() Expr {
	t := p.next()
	switch t.kind {
	case "int":
		v, ok := new(big.Int).SetString(strings.ReplaceAll(t.text, "_", ""), 0)
		if !ok {
			panic(fmt.Errorf("bad integer %q", t.text))
		}
		return &EInt{v}
	case "str":
		return &EStr{t.text}
	case "ident":
		if t.text == "forall" || t.text == "exists" {
			return p.quant(t.text == "forall")
		}
		return &EIdent{t.text}
	case "op":
		if t.text == "(" {
			e := p.expr(0)
			p.expectOp(")")
			return e
		}
	}
	panic(fmt.Errorf("unexpected %q in contract expression %q", t.text, p.src))
}

func (p *parser) quant(forall bool) Expr {
	q := &EQuant{Forall: forall}
	for {
		// names (comma separated) then a type
		var names []string
		for {
			n := p.next()
			if n.kind != "ident" {
				panic(fmt.Errorf("expected variable name in quantifier, got %q", n.text))
			}
			names = append(names, n.text)
			if p.isOp(",") {
				// lookahead: "a, b T" vs "a T, b U" -- a name followed by ',' continues the name list
				p.pos++
				continue
			}
			break
		}
		ty := p.typeExpr()
		// "x, y T": all but the last name were collected before the type; but
		// "x T, y U" parses as names=[x] type T, then ','.
		for _, n := range names {
			q.Vars = append(q.Vars, qvar{n, ty})
		}
		if p.isOp(",") {
			p.pos++
			continue
		}
		break
	}
	first := true
	for p.isOp("{") {
		p.pos++
		var set []Expr
		for !p.isOp("}") {
			set = append(set, p.expr(0))
			if p.isOp(",") {
				p.pos++
			}
		}
		p.expectOp("}")
		if first {
			q.Triggers = set
			first = false
		} else {
			// further trigger sets are alternatives: {a, b} {c}
			q.AltTriggers = append(q.AltTriggers, set)
		}
	}
	p.expectOp("::")
	q.Body = p.expr(0)
	return q
}

// typeExpr consumes a type: [*] ident[.ident], [N]T, []T, map[K]V
func (p *parser) typeExpr() TypeExpr {
	var b strings.Builder
	var rec func()
	rec = func() {
		t := p.next()
		switch {
		case t.kind == "op" && t.text == "*":
			b.WriteString("*")
			rec()
		case t.kind == "op" && t.text == "[":
			b.WriteString("[")
			if p.peek().kind == "int" {
				b.WriteString(p.next().text)
			}
			p.expectOp("]")
			b.WriteString("]")
			rec()
		case t.kind == "ident" && t.text == "map":
			p.expectOp("[")
			b.WriteString("map[")
			rec()
			p.expectOp("]")
			b.WriteString("]")
			rec()
		case t.kind == "ident":
			b.WriteString(t.text)
			if p.isOp(".") {
				p.pos++
				n := p.next()
				b.WriteString("." + n.text)
			}
		default:
			panic(fmt.Errorf("bad type expression near %q in %q", t.text, p.src))
		}
	}
	rec()
	return TypeExpr{b.String()}
}

func (p *parser) postfix(e Expr) Expr {
	for {
		switch {
		case p.isOp("."):
			p.pos++
			n := p.next()
			if n.kind != "ident" {
				panic(fmt.Errorf("expected field name after '.', got %q", n.text))
			}
			e = &ESel{e, n.text}
		case p.isOp("["):
			p.pos++
			if p.isOp("*") {
				p.pos++
				p.expectOp("]")
				e = &EIndex{e, nil}
				continue
			}
			i := p.expr(0)
			p.expectOp("]")
			e = &EIndex{e, i}
		case p.isOp("("):
			id, ok := e.(*EIdent)
			if !ok {
				// method-like call on selector: pkg.Func(...)
				if s, ok2 := e.(*ESel); ok2 {
					if x, ok3 := s.X.(*EIdent); ok3 {
						id = &EIdent{x.Name + "." + s.Name}
						ok = true
					}
				}
				if !ok {
					panic(fmt.Errorf("call of non-identifier in %q", p.src))
				}
			}
			p.pos++
			c := &ECall{Fn: id.Name}
			for !p.isOp(")") {
				// named argument  Name: expr
				if p.peek().kind == "ident" && p.toks[p.pos+1].kind == "op" && p.toks[p.pos+1].text == ":" {
					n := p.next().text
					p.pos++
					c.Named = append(c.Named, namedArg{n, p.expr(0)})
				} else {
					c.Args = append(c.Args, p.expr(0))
				}
				if p.isOp(",") {
					p.pos++
				}
			}
			p.expectOp(")")
			e = c
		default:
			return e
		}
	}
}

// ---------------------------------------------------------------------------
// contract files

type Clause struct {
	Expr  Expr
	Text  string
	Props []string
}

type CallAssert struct {
	Callee  string
	Ordinal int
	Clause  Clause
}

type LoopContract struct {
	Ordinal    int
	Invariants []Clause
	BackEdge   []Clause
	Init       []Clause
	Exit       []Clause
	Decreases  *Clause
	Hint       string
}

type AssignPat struct {
	Expr       Expr
	Text       string
	CompPrefix string // filled lazily
}

type PureFunc struct {
	Opaque bool
	Name   string
	Params []qvar
	Result TypeExpr
	Body   Expr
	Text   string
	Pkg    string
}

type Lemma struct {
	Applies []Expr // lemma applications: other lemmas instantiated at explicit arguments
	Name    string
	Props   []string
	Body    Expr
	Text    string
	Pkg     string
	Uses    []string // axioms / options
}

type LetDef struct {
	Name string
	Body Expr
}

type FuncContract struct {
	Name       string // pkg.(*T).M
	Pkg        string
	Props      []string
	Safety     []string // properties charged with this function's safety obligations
	Requires   []Clause
	Ensures    []Clause
	Lets       []LetDef
	Assigns    []AssignPat
	HasAssigns bool
	AssignsAll bool
	Loops      map[int]*LoopContract
	AllowPanic bool
	Modular    bool // callers use the contract instead of inlining
	InitCtx    bool // runs before any other goroutine can see the object
	NoLocks    bool
	Entry      bool // entry point: requires nothing held
	Opts       map[string]string
	Applies    []Expr // lemma applications assumed at entry (instantiated at explicit arguments)
	// clauses about the state right after each Lock() of the function
	CallAsserts  []CallAssert
	StoreAsserts    map[string][]Clause // field name -> assertions checked right after every store to that field
	Hints           []Expr              // integer terms offered as instantiation offsets for quantified hypotheses
	UnlockAsserts   []Clause            // proved at every Unlock() of the function (atlock() = state at the matching Lock())
	AfterLockAssume []Clause            // trusted assumptions (listed)
	AfterLockApply  []Expr              // lemma applications
}

type LockDecl struct {
	Owner    string // pkg.Type
	MuField  string
	Guarded  map[string]bool
	InitOnly map[string]bool
	Inv      string // pure function name taking the owner pointer
}

// GhostSum: a ghost sum over the domain of maps of one type:
// Sum(dom) = sum of weight(k) for k in dom. Declared in a contract file as
//
//	ghostsum NAME map[K]V weight EXPR(k)
type GhostSum struct {
	Name    string
	MapType TypeExpr
	Weight  Expr // over the bound key `k`
	Pkg     string
}

type ContractDB struct {
	sums      []*GhostSum
	funcs     map[string]*FuncContract
	pures     map[string]*PureFunc
	lemmas    []*Lemma
	locks     []*LockDecl
	lockOrder [][2]string
	files     []string
	panicsOK  map[string]bool
	frames    []*FrameClause
}

func (db *ContractDB) allowPanic(fn string) bool {
	if c := db.funcs[fn]; c != nil {
		return c.AllowPanic
	}
	return db.panicsOK[fn]
}

var clauseKeywords = map[string]bool{
	"assert_before_call": true, "writers": true, "callers": true, "globalinit": true, "dominated": true, "sequence": true, "hint": true, "ghostsum": true, "assert_at_unlock": true, "assert_after_store": true, "assume_after_lock": true, "apply_after_lock": true, "opaque": true, "apply": true, "reveal": true, "guard": true, "lock": true, "lockorder": true, "pure": true, "lemma": true, "func": true, "props": true, "safety": true,
	"requires": true, "ensures": true, "let": true, "assigns": true, "loop": true, "invariant": true, "backedge": true, "init": true, "exit": true,
	"decreases": true, "allow_panic": true, "modular": true, "init_context": true, "entry": true, "option": true, "uses": true, "end": true,
}

// readContractFile extracts //@ clauses (joined with their continuation
// lines) from one file.
func readContractFile(path string) ([]string, string, error) {
	data, err := os.ReadFile(path)
	if err != nil {
		return nil, "", err
	}
	var clauses []string
	pkg := ""
	for _, line := range strings.Split(string(data), "\n") {
		tl := strings.TrimSpace(line)
		if strings.HasPrefix(tl, "package ") {
			pkg = strings.TrimSpace(strings.TrimPrefix(tl, "package "))
		}
		var body string
		switch {
		case strings.HasPrefix(tl, "//@"):
			body = strings.TrimSpace(tl[3:])
		case strings.HasPrefix(tl, "// @"): // gofmt may insert the space
			body = strings.TrimSpace(tl[4:])
		default:
			continue
		}
		if body == "" {
			continue
		}
		if i := strings.Index(body, " //"); i >= 0 { // trailing comment
			body = strings.TrimSpace(body[:i])
		}
		first := body
		if i := strings.IndexAny(body, " \t["); i >= 0 {
			first = body[:i]
		}
		if clauseKeywords[first] || len(clauses) == 0 {
			clauses = append(clauses, body)
		} else {
			clauses[len(clauses)-1] += " " + body
		}
	}
	return clauses, pkg, nil
}

func splitProps(head string) (kw string, props []string, rest string) {
	// keyword[Cxx,Cyy] rest
	i := strings.IndexAny(head, " \t[")
	if i < 0 {
		return head, nil, ""
	}
	kw = head[:i]
	rest = head[i:]
	if rest[0] == '[' {
		j := strings.Index(rest, "]")
		for _, p := range strings.Split(rest[1:j], ",") {
			props = append(props, strings.TrimSpace(p))
		}
		rest = rest[j+1:]
	}
	return kw, props, strings.TrimSpace(rest)
}

func loadContracts(repo string, pkgs []string) (*ContractDB, error) {
	db := &ContractDB{funcs: map[string]*FuncContract{}, pures: map[string]*PureFunc{}, panicsOK: map[string]bool{}}
	for _, p := range pkgs {
		matches, _ := filepath.Glob(filepath.Join(repo, p, "*_verif.go"))
		for _, path := range matches {
			clauses, pkg, err := readContractFile(path)
			if err != nil {
				return nil, err
			}
			db.files = append(db.files, path)
			if err := db.addClauses(pkg, clauses, path); err != nil {
				return nil, fmt.Errorf("%s: %v", path, err)
			}
		}
	}
	return db, nil
}

func mustParse(src string) (Expr, error) {
	e, err := parseExpr(src)
	if err != nil {
		return nil, fmt.Errorf("contract expression %q: %v", src, err)
	}
	return e, nil
}

func (db *ContractDB) addClauses(pkg string, clauses []string, path string) error {
	var cur *FuncContract
	var curLoop *LoopContract
	var curLemma *Lemma
	for _, cl := range clauses {
		kw, props, rest := splitProps(cl)
		switch kw {
		case "end":
			cur, curLoop, curLemma = nil, nil, nil
		case "lock":
			// lock server.GCAServer.mu inv INV guards a b c initonly x y
			f := strings.Fields(rest)
			if len(f) < 1 {
				return fmt.Errorf("bad lock clause %q", cl)
			}
			i := strings.LastIndex(f[0], ".")
			ld := &LockDecl{Owner: f[0][:i], MuField: f[0][i+1:], Guarded: map[string]bool{}, InitOnly: map[string]bool{}}
			mode := ""
			for _, w := range f[1:] {
				switch w {
				case "inv", "guards", "initonly":
					mode = w
					continue
				}
				switch mode {
				case "inv":
					ld.Inv = w
				case "guards":
					ld.Guarded[w] = true
				case "initonly":
					ld.InitOnly[w] = true
				}
			}
			db.locks = append(db.locks, ld)
		case "ghostsum":
			// ghostsum NAME map[string]*LogEntry weight 2 * len(k)
			f := strings.SplitN(rest, " weight ", 2)
			if len(f) != 2 {
				return fmt.Errorf("bad ghostsum %q", cl)
			}
			hd := strings.Fields(f[0])
			if len(hd) != 2 {
				return fmt.Errorf("bad ghostsum %q", cl)
			}
			e, err := mustParse(strings.TrimSpace(f[1]))
			if err != nil {
				return err
			}
			db.sums = append(db.sums, &GhostSum{Name: hd[0], MapType: TypeExpr{hd[1]}, Weight: e, Pkg: pkg})
		case "writers", "callers", "globalinit", "dominated", "sequence":
			fc, err := parseFrameClause(kw, pkg, props, rest)
			if err != nil {
				return err
			}
			db.frames = append(db.frames, fc)
		case "lockorder":
			f := strings.Split(rest, "->")
			if len(f) != 2 {
				return fmt.Errorf("bad lockorder %q", cl)
			}
			db.lockOrder = append(db.lockOrder, [2]string{strings.TrimSpace(f[0]), strings.TrimSpace(f[1])})
		case "apply":
			e, err := mustParse(rest)
			if err != nil {
				return err
			}
			if curLemma != nil {
				curLemma.Applies = append(curLemma.Applies, e)
			} else if cur != nil {
				cur.Applies = append(cur.Applies, e)
			} else {
				return fmt.Errorf("apply outside a lemma or func block: %q", cl)
			}
		case "reveal":
			if curLemma != nil {
				for _, n := range strings.Fields(rest) {
					curLemma.Uses = append(curLemma.Uses, "reveal:"+n)
				}
			} else if cur != nil {
				cur.Opts["reveal"] += " " + rest
			}
		case "pure", "opaque":
			// [opaque] pure func name(a T, b U) R = expr
			r := strings.TrimSpace(strings.TrimPrefix(strings.TrimSpace(strings.TrimPrefix(rest, "pure")), "func"))
			eqi := strings.Index(r, "=")
			// find the '=' that follows the signature: first '=' after the closing paren of params
			depth := 0
			for i, c := range r {
				if c == '(' {
					depth++
				} else if c == ')' {
					depth--
				} else if c == '=' && depth == 0 {
					if i+1 < len(r) && r[i+1] == '=' {
						continue
					}
					eqi = i
					break
				}
			}
			sig, body := strings.TrimSpace(r[:eqi]), strings.TrimSpace(r[eqi+1:])
			op := strings.Index(sig, "(")
			cp := strings.LastIndex(sig, ")")
			pf := &PureFunc{Name: strings.TrimSpace(sig[:op]), Text: body, Pkg: pkg, Opaque: kw == "opaque"}
			params := strings.TrimSpace(sig[op+1 : cp])
			if params != "" {
				var pending []string
				for _, part := range strings.Split(params, ",") {
					fs := strings.Fields(part)
					switch len(fs) {
					case 1:
						pending = append(pending, fs[0])
					case 2:
						for _, n := range pending {
							pf.Params = append(pf.Params, qvar{n, TypeExpr{fs[1]}})
						}
						pending = nil
						pf.Params = append(pf.Params, qvar{fs[0], TypeExpr{fs[1]}})
					default:
						return fmt.Errorf("bad parameter %q in %q", part, cl)
					}
				}
			}
			pf.Result = TypeExpr{strings.TrimSpace(sig[cp+1:])}
			e, err := mustParse(body)
			if err != nil {
				return err
			}
			pf.Body = e
			db.pures[pf.Name] = pf
		case "lemma":
			i := strings.Index(rest, ":")
			name := strings.TrimSpace(rest[:i])
			if j := strings.Index(name, "["); j >= 0 {
				for _, p := range strings.Split(strings.Trim(name[j:], "[] "), ",") {
					props = append(props, strings.TrimSpace(p))
				}
				name = strings.TrimSpace(name[:j])
			}
			body := strings.TrimSpace(rest[i+1:])
			e, err := mustParse(body)
			if err != nil {
				return err
			}
			curLemma = &Lemma{Name: name, Props: props, Body: e, Text: body, Pkg: pkg}
			db.lemmas = append(db.lemmas, curLemma)
			cur, curLoop = nil, nil
		case "uses":
			if curLemma != nil {
				curLemma.Uses = append(curLemma.Uses, strings.Fields(rest)...)
			}
		case "func":
			name := rest
			if !strings.HasPrefix(name, pkg+".") {
				name = pkg + "." + name
			}
			cur = &FuncContract{Name: name, Pkg: pkg, Loops: map[int]*LoopContract{}, Opts: map[string]string{}}
			curLoop, curLemma = nil, nil
			db.funcs[name] = cur
		default:
			if cur == nil {
				return fmt.Errorf("clause %q outside a func block", cl)
			}
			switch kw {
			case "hint":
				for _, part := range splitTop(rest, ',') {
					e, err := mustParse(strings.TrimSpace(part))
					if err != nil {
						return err
					}
					cur.Hints = append(cur.Hints, e)
				}
			case "assert_at_unlock":
				// optional site selector:  assert_at_unlock[Cxx] #4 expr  (the 4th Unlock call in source order)
				site := 0
				lockSel := ""
				if strings.HasPrefix(rest, "#") {
					f := strings.SplitN(rest, " ", 2)
					fmt.Sscanf(f[0], "#%d", &site)
					rest = strings.TrimSpace(f[1])
				}
				// mutex selector:  assert_at_unlock[Cxx] @server.AuthorizedServers.mu expr
				if strings.HasPrefix(rest, "@") {
					f := strings.SplitN(rest, " ", 2)
					lockSel = f[0][1:]
					rest = strings.TrimSpace(f[1])
				}
				e, err := mustParse(rest)
				if err != nil {
					return err
				}
				cl := Clause{Expr: e, Text: rest, Props: props}
				if site > 0 {
					cl.Props = append(append([]string{}, props...), fmt.Sprintf("site=%d", site))
				}
				if lockSel != "" {
					cl.Props = append(append([]string{}, cl.Props...), "site=lock:"+lockSel)
				}
				cur.UnlockAsserts = append(cur.UnlockAsserts, cl)
			case "assert_before_call":
				// assert_before_call[Cxx] CALLEE-SUBSTRING#k expr   (k-th matching call in source order; #k optional = every match)
				f := strings.SplitN(rest, " ", 2)
				if len(f) != 2 {
					return fmt.Errorf("bad assert_before_call %q", cl)
				}
				sel, ord := f[0], 0
				if i := strings.LastIndex(sel, "#"); i > 0 {
					fmt.Sscanf(sel[i+1:], "%d", &ord)
					sel = sel[:i]
				}
				e, err := mustParse(strings.TrimSpace(f[1]))
				if err != nil {
					return err
				}
				cur.CallAsserts = append(cur.CallAsserts, CallAssert{Callee: sel, Ordinal: ord, Clause: Clause{Expr: e, Text: strings.TrimSpace(f[1]), Props: props}})
			case "assert_after_store":
				// assert_after_store[Cxx] field expr
				f := strings.SplitN(rest, " ", 2)
				if len(f) != 2 {
					return fmt.Errorf("bad assert_after_store %q", cl)
				}
				e, err := mustParse(strings.TrimSpace(f[1]))
				if err != nil {
					return err
				}
				if cur.StoreAsserts == nil {
					cur.StoreAsserts = map[string][]Clause{}
				}
				cur.StoreAsserts[f[0]] = append(cur.StoreAsserts[f[0]], Clause{Expr: e, Text: strings.TrimSpace(f[1]), Props: props})
			case "assume_after_lock":
				e, err := mustParse(rest)
				if err != nil {
					return err
				}
				cur.AfterLockAssume = append(cur.AfterLockAssume, Clause{Expr: e, Text: rest})
			case "apply_after_lock":
				e, err := mustParse(rest)
				if err != nil {
					return err
				}
				cur.AfterLockApply = append(cur.AfterLockApply, e)
			case "props":
				cur.Props = strings.Fields(rest)
			case "safety":
				cur.Safety = strings.Fields(rest)
			case "allow_panic":
				cur.AllowPanic = true
			case "modular":
				cur.Modular = true
			case "init_context":
				cur.InitCtx = true
			case "entry":
				cur.Entry = true
			case "option":
				f := strings.Fields(rest)
				if len(f) == 2 {
					cur.Opts[f[0]] = f[1]
				} else if len(f) == 1 {
					cur.Opts[f[0]] = "true"
				}
			case "requires", "ensures", "invariant", "decreases", "backedge", "init", "exit":
				e, err := mustParse(rest)
				if err != nil {
					return err
				}
				c := Clause{Expr: e, Text: rest, Props: props}
				switch kw {
				case "requires":
					cur.Requires = append(cur.Requires, c)
				case "ensures":
					cur.Ensures = append(cur.Ensures, c)
				case "invariant":
					if curLoop == nil {
						return fmt.Errorf("invariant outside loop block: %q", cl)
					}
					curLoop.Invariants = append(curLoop.Invariants, c)
				case "init":
					// asserted once, when the loop is entered (not an invariant)
					if curLoop == nil {
						return fmt.Errorf("init outside loop block: %q", cl)
					}
					curLoop.Init = append(curLoop.Init, c)
				case "exit":
					// asserted on every edge that leaves the loop
					if curLoop == nil {
						return fmt.Errorf("exit outside loop block: %q", cl)
					}
					curLoop.Exit = append(curLoop.Exit, c)
				case "backedge":
					// two-state iteration assertion, checked at every back edge of the
					// loop; atiter(e) is e at the start of the iteration
					if curLoop == nil {
						return fmt.Errorf("backedge outside loop block: %q", cl)
					}
					curLoop.BackEdge = append(curLoop.BackEdge, c)
				case "decreases":
					if curLoop == nil {
						return fmt.Errorf("decreases outside loop block: %q", cl)
					}
					curLoop.Decreases = &c
				}
			case "let":
				i := strings.Index(rest, "=")
				e, err := mustParse(strings.TrimSpace(rest[i+1:]))
				if err != nil {
					return err
				}
				cur.Lets = append(cur.Lets, LetDef{strings.TrimSpace(rest[:i]), e})
			case "assigns":
				cur.HasAssigns = true
				for _, part := range splitTop(rest, ',') {
					part = strings.TrimSpace(part)
					if part == "" || part == "nothing" {
						continue
					}
					if part == "*" {
						cur.AssignsAll = true
						continue
					}
					e, err := mustParse(part)
					if err != nil {
						return err
					}
					cur.Assigns = append(cur.Assigns, AssignPat{Expr: e, Text: part})
				}
			case "loop":
				f := strings.Fields(rest)
				var n int
				fmt.Sscanf(f[0], "%d", &n)
				curLoop = &LoopContract{Ordinal: n, Hint: strings.TrimSpace(strings.TrimPrefix(rest, f[0]))}
				cur.Loops[n] = curLoop
			default:
				return fmt.Errorf("unknown clause %q", cl)
			}
		}
	}
	return nil
}

func splitTop(s string, sep rune) []string {
	var out []string
	depth := 0
	last := 0
	for i, c := range s {
		switch c {
		case '(', '[':
			depth++
		case ')', ']':
			depth--
		default:
			if c == sep && depth == 0 {
				out = append(out, s[last:i])
				last = i + 1
			}
		}
	}
	return append(out, s[last:])
}
