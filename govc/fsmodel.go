package main

// Ghost file system (DESIGN §3.2, whole-file abstraction). Per file name (the
// last path element, PathLast) three ghost components describe the disk:
//
//	GhostFileExists[name] : Bool      the file is present
//	GhostFileLen[name]    : BV64      its length in bytes
//	GhostFile[name]       : BV64      abstract identity of its content
//
// Content identities are MsgK_n(packed bytes) for constant lengths, BytesId
// for symbolic ones, and FileAppend(old, id) after an appending write, so an
// append-only file is the sequence of the records written to it. Open files
// remember their name (HandleName). Every mutating call bumps $fsWrites; every
// read failure other than "does not exist" bumps $ioFail. Failed mutations
// leave the file in an unknown state (but never remove it).

import (
	"fmt"
	"go/token"
	"go/types"
	"strings"

	"golang.org/x/tools/go/ssa"
)

const ghostFileKey = "GhostFile"
const ghostLenKey = "GhostFileLen"
const ghostExistsKey = "GhostFileExists"

func ghostFileSort() Sort   { return ArrS(SRef, ArrS(SStr, BV(64))) }
func ghostExistsSort() Sort { return ArrS(SRef, ArrS(SStr, SBool)) }

type ghostFile struct {
	ex   *Exec
	st   *State
	name string
}

func (ex *Exec) gfile(st *State, name string) ghostFile { return ghostFile{ex, st, name} }

func (g ghostFile) get(key string, s Sort) string {
	return sel(sel(g.ex.comp(g.st, key, s), z64()), g.name)
}
func (g ghostFile) set(key string, s Sort, v string) {
	g.ex.checkGhostAssign(g.st, key, z64(), "file("+key+")", token.NoPos)
	cur := g.ex.comp(g.st, key, s)
	g.ex.setComp(g.st, key, s, sto(cur, z64(), sto(sel(cur, z64()), g.name, v)))
}
func (g ghostFile) exists() string     { return g.get(ghostExistsKey, ghostExistsSort()) }
func (g ghostFile) length() string     { return g.get(ghostLenKey, ghostFileSort()) }
func (g ghostFile) content() string    { return g.get(ghostFileKey, ghostFileSort()) }
func (g ghostFile) setExists(v string) { g.set(ghostExistsKey, ghostExistsSort(), v) }
func (g ghostFile) setLength(v string) { g.set(ghostLenKey, ghostFileSort(), v) }
func (g ghostFile) setContent(v string) {
	g.set(ghostFileKey, ghostFileSort(), v)
}

func (ex *Exec) pathLast(path string) string {
	ex.vc.DeclareFun("PathLast", []Sort{SStr}, SStr)
	return app("PathLast", path)
}

func (ex *Exec) ghostBumpIf(st *State, name string, cond string) {
	key := "Ghost_" + strings.TrimPrefix(name, "$")
	s := ArrS(SRef, BV(64))
	cur := ex.comp(st, key, s)
	ex.setComp(st, key, s, sto(cur, z64(), ite(cond, app("bvadd", sel(cur, z64()), bvInt(1, 64)), sel(cur, z64()))))
}

const fsTrust = "file-system model: per-name ghost files (exists, length, content identity); a successful whole-file write or append has exactly its documented effect, a failed one leaves the file in an unknown state; reads return the ghost content"

var byteSliceT = types.NewSlice(types.Typ[types.Uint8])

// contentIdFacts ties the identity of a byte sequence of symbolic length n to
// the constant-length identities used by fixed-size codecs.
func (ex *Exec) contentIdFacts(st *State, sl *Agg, n string, id string) {
	sv := ex.viewSlice(sl, byteSliceT)
	m := sc(ex.heapTree(st, AElems, types.Typ[types.Uint8])).T
	ex.assume(st, eq(app("BytesId", sel(m, sv.ref), sv.off, n), id))
	for _, k := range []int64{4, 32, 64} {
		parts := make([]string, 0, k)
		for i := k - 1; i >= 0; i-- {
			parts = append(parts, sc(ex.load(st, sv.elemAddr(bvInt(i, 64)))).T)
		}
		packed := Sc{"(concat " + strings.Join(parts, " ") + ")", BV(8 * int(k))}
		ex.assume(st, implies(eq(n, bvInt(k, 64)), eq(id, ex.msgId(packed))))
	}
}

// os.ReadFile / ioutil.ReadFile
func fsReadFile(ex *Exec, st *State, fr *Frame, callee *ssa.Function, args []Val, c *ssa.CallCommon, pos token.Pos) Val {
	ex.vc.Trust(fsTrust)
	g := ex.gfile(st, ex.pathLast(sc(args[0]).T))
	err := ex.vc.Fresh("rderr", SRef)
	n := ex.vc.Fresh("rdlen", BV(64))
	ex.assume(st, and(app("bvsle", z64(), n), app("bvsle", n, bvInt(1<<40, 64))))
	data := ex.newSliceRaw(st, byteSliceT, n, n, "readfile", false).(*Agg)
	ex.vc.DeclareFun("ErrNotExist", []Sort{SRef}, SBool)
	ne := app("ErrNotExist", err)
	ex.assume(st, implies(ne, and(not(eq(err, z64())), not(g.exists()))))
	ex.assume(st, implies(not(g.exists()), ne))
	ex.assume(st, implies(eq(err, z64()), and(g.exists(), eq(n, g.length()))))
	g2 := st.guard
	st.guard = ex.vc.Bind("grd", SBool, and(g2, eq(err, z64())))
	ex.contentIdFacts(st, data, n, g.content())
	st.guard = g2
	ex.ghostBumpIf(st, "$ioFail", and(not(eq(err, z64())), not(ne)))
	return &Agg{F: []Val{data, Sc{err, SRef}}}
}

func fsIsNotExist(ex *Exec, st *State, fr *Frame, callee *ssa.Function, args []Val, c *ssa.CallCommon, pos token.Pos) Val {
	ex.vc.DeclareFun("ErrNotExist", []Sort{SRef}, SBool)
	e := sc(args[0]).T
	ex.assume(st, implies(app("ErrNotExist", e), not(eq(e, z64()))))
	return Sc{app("ErrNotExist", e), SBool}
}

// os.WriteFile / ioutil.WriteFile: open with O_CREATE|O_TRUNC, one write.
func fsWriteFile(ex *Exec, st *State, fr *Frame, callee *ssa.Function, args []Val, c *ssa.CallCommon, pos token.Pos) Val {
	ex.vc.Trust(fsTrust)
	ex.ghostBump(st, "$fsWrites")
	res := ex.valOrErrResults(st, c.Signature().Results(), "fs")
	errT := z64()
	if s, ok := res.(Sc); ok {
		errT = s.T
	}
	g := ex.gfile(st, ex.pathLast(sc(args[0]).T))
	id := ex.bytesIdAny(st, args[1], c.Args[1].Type())
	ln := ex.viewSlice(args[1], c.Args[1].Type()).ln
	okc := eq(errT, z64())
	unkE := ex.vc.Fresh("fexists", SBool)
	ex.assume(st, implies(g.exists(), unkE))
	g.setExists(ite(okc, "true", unkE))
	g.setLength(ite(okc, ln, ex.vc.Fresh("flen", BV(64))))
	g.setContent(ite(okc, id, ex.vc.Fresh("filecontent", BV(64))))
	ex.ghostBumpIf(st, "$ioFail", not(okc))
	return res
}

func (ex *Exec) handleName(h string) string {
	ex.vc.DeclareFun("HandleName", []Sort{SRef}, SStr)
	return app("HandleName", h)
}

const emptyContent = "#x0000000000000000"

// os.Create: open with O_CREATE|O_TRUNC.
func fsCreate(ex *Exec, st *State, fr *Frame, callee *ssa.Function, args []Val, c *ssa.CallCommon, pos token.Pos) Val {
	ex.vc.Trust(fsTrust)
	ex.ghostBump(st, "$fsWrites")
	res := ex.valOrErrResults(st, c.Signature().Results(), "fs").(*Agg)
	h, errT := sc(res.F[0]).T, sc(res.F[1]).T
	name := ex.pathLast(sc(args[0]).T)
	g := ex.gfile(st, name)
	okc := eq(errT, z64())
	unkE := ex.vc.Fresh("fexists", SBool)
	ex.assume(st, implies(g.exists(), unkE))
	g.setExists(ite(okc, "true", unkE))
	g.setLength(ite(okc, z64(), ex.vc.Fresh("flen", BV(64))))
	g.setContent(ite(okc, emptyContent, ex.vc.Fresh("filecontent", BV(64))))
	ex.assume(st, implies(okc, eq(ex.handleName(h), name)))
	ex.assume(st, implies(okc, ex.handleAppends(h)))
	ex.ghostBumpIf(st, "$ioFail", not(okc))
	return res
}

// handleAppends: writes through the handle go to the end of the file
// (O_APPEND, or a file that was just created/truncated and is written once).
func (ex *Exec) handleAppends(h string) string {
	ex.vc.DeclareFun("HandleAppends", []Sort{SRef}, SBool)
	return app("HandleAppends", h)
}

// os.OpenFile(path, flag, perm)
func fsOpen(ex *Exec, st *State, fr *Frame, callee *ssa.Function, args []Val, c *ssa.CallCommon, pos token.Pos) Val {
	ex.vc.Trust(fsTrust)
	flag, isConst := constBV(sc(args[1]).T)
	const oCreate, oTrunc, oAppend, oExcl = 0x40, 0x200, 0x400, 0x80
	res := ex.valOrErrResults(st, c.Signature().Results(), "fs").(*Agg)
	h, errT := sc(res.F[0]).T, sc(res.F[1]).T
	name := ex.pathLast(sc(args[0]).T)
	g := ex.gfile(st, name)
	okc := eq(errT, z64())
	if !isConst {
		ex.ghostBump(st, "$fsWrites")
		g.setExists(ex.vc.Fresh("fexists", SBool))
		g.setLength(ex.vc.Fresh("flen", BV(64)))
		g.setContent(ex.vc.Fresh("filecontent", BV(64)))
		return res
	}
	if flag&(oCreate|oTrunc) != 0 {
		ex.ghostBump(st, "$fsWrites")
	}
	was := g.exists()
	if flag&oCreate != 0 && flag&oExcl != 0 {
		// O_EXCL: creating fails when the file is already there (not an I/O failure)
		ex.assume(st, implies(was, not(okc)))
		ex.ghostBumpIf(st, "$ioFail", and(not(okc), not(was)))
		g.setLength(ite(okc, z64(), g.length()))
		g.setContent(ite(okc, emptyContent, g.content()))
		g.setExists(or(was, okc))
		ex.assume(st, implies(okc, eq(ex.handleName(h), name)))
		ex.assume(st, implies(okc, ex.handleAppends(h)))
		return res
	}
	if flag&oCreate != 0 {
		// a created file is empty; an existing one is kept (unless truncated)
		unkE := ex.vc.Fresh("fexists", SBool)
		ex.assume(st, implies(was, unkE))
		g.setLength(ite(okc, ite(was, g.length(), z64()), ite(was, g.length(), ex.vc.Fresh("flen", BV(64)))))
		g.setContent(ite(okc, ite(was, g.content(), emptyContent), ite(was, g.content(), ex.vc.Fresh("filecontent", BV(64)))))
		g.setExists(ite(okc, "true", unkE))
	} else {
		// opening without O_CREATE succeeds only on an existing file
		ex.assume(st, implies(okc, was))
	}
	if flag&oTrunc != 0 {
		g.setLength(ite(okc, z64(), ex.vc.Fresh("flen", BV(64))))
		g.setContent(ite(okc, emptyContent, ex.vc.Fresh("filecontent", BV(64))))
	}
	ex.assume(st, implies(okc, eq(ex.handleName(h), name)))
	if flag&oAppend != 0 {
		ex.assume(st, implies(okc, ex.handleAppends(h)))
	}
	// failing to open an existing file (or to create one) is an I/O failure;
	// a missing file without O_CREATE is not
	if flag&oCreate != 0 {
		ex.ghostBumpIf(st, "$ioFail", not(okc))
	} else {
		ex.ghostBumpIf(st, "$ioFail", and(not(okc), was))
	}
	return res
}

// (*os.File).Write / WriteString through an appending handle: on success the
// file grows by exactly the bytes written (one record); otherwise unknown.
func fsFileWrite(ex *Exec, st *State, fr *Frame, callee *ssa.Function, args []Val, c *ssa.CallCommon, pos token.Pos) Val {
	ex.vc.Trust(fsTrust)
	ex.ghostBump(st, "$fsWrites")
	res := ex.valOrErrResults(st, c.Signature().Results(), "fs")
	h := sc(args[0]).T
	errT := z64()
	if a, ok := res.(*Agg); ok && len(a.F) == 2 {
		errT = sc(a.F[1]).T
	}
	g := ex.gfile(st, ex.handleName(h))
	okc := and(eq(errT, z64()), ex.handleAppends(h))
	var id, ln string
	if kindOf(c.Args[1].Type()) == KSlice {
		id = ex.bytesIdAny(st, args[1], c.Args[1].Type())
		ln = ex.viewSlice(args[1], c.Args[1].Type()).ln
	} else {
		id = ex.vc.Fresh("strid", BV(64))
		ln = app("Str_len", sc(args[1]).T)
	}
	ex.vc.DeclareFun("FileAppend", []Sort{BV(64), BV(64)}, BV(64))
	g.setLength(ite(okc, app("bvadd", g.length(), ln), ex.vc.Fresh("flen", BV(64))))
	g.setContent(ite(okc, app("FileAppend", g.content(), id), ex.vc.Fresh("filecontent", BV(64))))
	if a, ok := res.(*Agg); ok && len(a.F) == 2 {
		// n == len(b) when err == nil
		ex.assume(st, implies(eq(errT, z64()), eq(sc(a.F[0]).T, ln)))
	}
	ex.ghostBumpIf(st, "$ioFail", not(eq(errT, z64())))
	return res
}

// fsWrite: other mutating calls (MkdirAll, Remove, Rename, WriteAt): counted, effect on ghost files unknown for the named file only where it can be named.
func fsWrite(ex *Exec, st *State, fr *Frame, callee *ssa.Function, args []Val, c *ssa.CallCommon, pos token.Pos) Val {
	ex.ghostBump(st, "$fsWrites")
	ex.vc.Trust("file-system calls (" + callee.Name() + "): results unconstrained, no effect on verified memory; $fsWrites counts mutating calls")
	_ = fmt.Sprint
	return ex.valOrErrResults(st, c.Signature().Results(), "fs")
}

// Line scanning of an in-memory byte sequence: bytes.NewReader(data) and
// bufio.NewScanner(r) carry the identity of the bytes; the k-th successful
// Scan() makes Text() return FileLine(id, k) (a function of the content), and
// Scan() reports whether a k-th line exists (FileHasLine(id, k)). The cursor
// is a ghost field of the scanner object.
func bytesNewReader(ex *Exec, st *State, fr *Frame, callee *ssa.Function, args []Val, c *ssa.CallCommon, pos token.Pos) Val {
	h := ex.freshRef(st, "bytesreader")
	ex.vc.DeclareFun("ReaderContent", []Sort{SRef}, BV(64))
	ex.assume(st, eq(app("ReaderContent", h), ex.bytesIdAny(st, args[0], c.Args[0].Type())))
	return Sc{h, SRef}
}

func bufioNewScanner(ex *Exec, st *State, fr *Frame, callee *ssa.Function, args []Val, c *ssa.CallCommon, pos token.Pos) Val {
	ex.vc.Trust("bufio.Scanner over an in-memory reader: successive Scan() calls yield the successive lines of the content (FileLine), and report whether there is one (FileHasLine)")
	h := ex.freshRef(st, "scanner")
	ex.vc.DeclareFun("ReaderContent", []Sort{SRef}, BV(64))
	ex.vc.DeclareFun("ScannerContent", []Sort{SRef}, BV(64))
	src := sc(args[0]).T
	if rec, has := ex.ifacePayload[src]; has {
		if p, ok := rec.v.(Sc); ok {
			src = p.T
		}
	}
	ex.assume(st, eq(app("ScannerContent", h), app("ReaderContent", src)))
	key := "Ghost_scanpos"
	s := ArrS(SRef, BV(64))
	ex.setComp(st, key, s, sto(ex.comp(st, key, s), h, z64()))
	return Sc{h, SRef}
}

func scannerScan(ex *Exec, st *State, fr *Frame, callee *ssa.Function, args []Val, c *ssa.CallCommon, pos token.Pos) Val {
	h := sc(args[0]).T
	key := "Ghost_scanpos"
	s := ArrS(SRef, BV(64))
	cur := sel(ex.comp(st, key, s), h)
	ex.vc.DeclareFun("ScannerContent", []Sort{SRef}, BV(64))
	ex.vc.DeclareFun("FileHasLine", []Sort{BV(64), BV(64)}, SBool)
	has := ex.vc.Bind("hasline", SBool, app("FileHasLine", app("ScannerContent", h), cur))
	ex.setComp(st, key, s, sto(ex.comp(st, key, s), h, ite(has, app("bvadd", cur, bvInt(1, 64)), cur)))
	return Sc{has, SBool}
}

func scannerText(ex *Exec, st *State, fr *Frame, callee *ssa.Function, args []Val, c *ssa.CallCommon, pos token.Pos) Val {
	h := sc(args[0]).T
	key := "Ghost_scanpos"
	s := ArrS(SRef, BV(64))
	cur := sel(ex.comp(st, key, s), h)
	ex.vc.DeclareFun("ScannerContent", []Sort{SRef}, BV(64))
	ex.vc.DeclareFun("FileLine", []Sort{BV(64), BV(64)}, SStr)
	return Sc{app("FileLine", app("ScannerContent", h), app("bvsub", cur, bvInt(1, 64))), SStr}
}

// Random-access files: (*os.File).ReadAt / WriteAt on a handle. The bytes
// behind a handle are the ghost pair (HandleBytes[h] : Array BV64 BV8,
// HandleLen[h]); bytes at or beyond the length are zero (they are
// unobservable until the file is extended, and an extension past the end
// leaves a zero-filled gap). Only constant, small buffer lengths are modelled.
const handleBytesKey = "GhostHandleBytes"
const handleLenKey = "GhostHandleLen"

func handleBytesSort() Sort { return ArrS(SRef, ArrS(BV(64), BV(8))) }
func handleLenSort() Sort   { return ArrS(SRef, BV(64)) }

func (ex *Exec) handleGhost(st *State, h string) (bytes, ln string) {
	b := sel(ex.comp(st, handleBytesKey, handleBytesSort()), h)
	l := sel(ex.comp(st, handleLenKey, handleLenSort()), h)
	ex.assume(st, and(app("bvsle", z64(), l), app("bvsle", l, bvInt(1<<40, 64))))
	ex.assume(st, fmt.Sprintf("(forall ((qo (_ BitVec 64))) (! (=> (bvsge qo %s) (= (select %s qo) #x00)) :pattern ((select %s qo))))", l, b, b))
	ex.vc.Trust("random-access file model: ReadAt/WriteAt act on ghost bytes per handle; bytes beyond the end are zero; a short read returns io.EOF")
	return b, l
}

func (ex *Exec) ioEOF() string {
	ex.vc.DeclareOnce("Glob_io_EOF", SRef)
	ex.vc.Assume(not(eq("Glob_io_EOF", z64())))
	return "Glob_io_EOF"
}

func fsReadAt(ex *Exec, st *State, fr *Frame, callee *ssa.Function, args []Val, c *ssa.CallCommon, pos token.Pos) Val {
	h := sc(args[0]).T
	off := sc(args[2]).T
	sv := ex.viewSlice(args[1], c.Args[1].Type())
	n, ok := constBV(sv.ln)
	res := ex.freshResults(st, c.Signature().Results(), "readat").(*Agg)
	errT := sc(res.F[1]).T
	if !ok || n > 64 {
		ex.havocArg(st, args[1], c.Args[1].Type())
		return res
	}
	bytes, ln := ex.handleGhost(st, h)
	full := ex.vc.Bind("rdfull", SBool, and(app("bvsle", z64(), off), app("bvsle", app("bvadd", off, bvInt(int64(n), 64)), ln)))
	eof := ex.ioEOF()
	ex.assume(st, implies(not(full), not(eq(errT, z64()))))
	ex.assume(st, implies(eq(errT, eof), not(full)))
	// a short read at the end of the file is reported as io.EOF unless another error occurs
	ex.ghostBumpIf(st, "$ioFail", and(not(eq(errT, z64())), not(eq(errT, eof))))
	ex.havocArg(st, args[1], c.Args[1].Type())
	for i := uint64(0); i < n; i++ {
		cur := sc(ex.load(st, sv.elemAddr(bvU(i, 64)))).T
		ex.assume(st, implies(eq(errT, z64()), eq(cur, sel(bytes, app("bvadd", off, bvU(i, 64))))))
	}
	ex.assume(st, implies(eq(errT, z64()), eq(sc(res.F[0]).T, bvU(n, 64))))
	return res
}

func fsWriteAt(ex *Exec, st *State, fr *Frame, callee *ssa.Function, args []Val, c *ssa.CallCommon, pos token.Pos) Val {
	ex.ghostBump(st, "$fsWrites")
	h := sc(args[0]).T
	off := sc(args[2]).T
	sv := ex.viewSlice(args[1], c.Args[1].Type())
	n, ok := constBV(sv.ln)
	res := ex.freshResults(st, c.Signature().Results(), "writeat").(*Agg)
	errT := sc(res.F[1]).T
	bytes, ln := ex.handleGhost(st, h)
	ex.checkGhostAssign(st, handleBytesKey, h, "the file behind the handle", pos)
	bk := ex.comp(st, handleBytesKey, handleBytesSort())
	lk := ex.comp(st, handleLenKey, handleLenSort())
	if !ok || n > 64 {
		ex.setComp(st, handleBytesKey, handleBytesSort(), sto(bk, h, ex.vc.Fresh("hbytes", ArrS(BV(64), BV(8)))))
		ex.setComp(st, handleLenKey, handleLenSort(), sto(lk, h, ex.vc.Fresh("hlen", BV(64))))
		return res
	}
	nb := bytes
	for i := uint64(0); i < n; i++ {
		nb = sto(nb, app("bvadd", off, bvU(i, 64)), sc(ex.load(st, sv.elemAddr(bvU(i, 64)))).T)
	}
	end := app("bvadd", off, bvU(n, 64))
	okc := and(eq(errT, z64()), app("bvsle", z64(), off))
	ex.setComp(st, handleBytesKey, handleBytesSort(), sto(bk, h, ite(okc, nb, ex.vc.Fresh("hbytes", ArrS(BV(64), BV(8))))))
	ex.setComp(st, handleLenKey, handleLenSort(), sto(lk, h, ite(okc, ite(app("bvsgt", end, ln), end, ln), ex.vc.Fresh("hlen", BV(64)))))
	ex.assume(st, implies(eq(errT, z64()), eq(sc(res.F[0]).T, bvU(n, 64))))
	ex.ghostBumpIf(st, "$ioFail", not(eq(errT, z64())))
	return res
}

// glow.SendUDPReport(report, location): one datagram is handed to the network
// (ghost log $udp: UdpLog[k] = identity of the k-th datagram, $udpCount) or the
// call fails and nothing is sent.
func sendUDPReport(ex *Exec, st *State, fr *Frame, callee *ssa.Function, args []Val, c *ssa.CallCommon, pos token.Pos) Val {
	ex.vc.Trust("glow.SendUDPReport: on success exactly one datagram with the given bytes is sent (ghost log), on failure none")
	ex.blockingCall(st, fr, "glow.SendUDPReport", pos)
	id := ex.bytesIdAny(st, args[0], c.Args[0].Type())
	e := ex.vc.Fresh("udperr", SRef)
	ck := "Ghost_udpCount"
	s := ArrS(SRef, BV(64))
	cnt := sel(ex.comp(st, ck, s), z64())
	ex.assume(st, app("bvsle", z64(), cnt))
	logS := ArrS(SRef, ArrS(BV(64), BV(64)))
	ex.checkGhostAssign(st, "Ghost_udpCount", z64(), "$udp (the datagram log)", pos)
	lg := ex.comp(st, "Ghost_udpLog", logS)
	okc := eq(e, z64())
	ex.setComp(st, "Ghost_udpLog", logS, sto(lg, z64(), ite(okc, sto(sel(lg, z64()), cnt, id), sel(lg, z64()))))
	ex.setComp(st, ck, s, sto(ex.comp(st, ck, s), z64(), ite(okc, app("bvadd", cnt, bvInt(1, 64)), cnt)))
	return Sc{e, SRef}
}

// Archive log: (*zipArchiveWriter).AddFile(reader, name, modTime) appends the
// pair (name, identity of what the reader delivers) to the ghost log $arc.
// An *os.File delivers the current ghost content of the file it was opened on
// (concurrent appends during the copy are outside the model: OS assumption of
// C14); a bytes.Reader / bytes.Buffer delivers its bytes.
func arcAddFile(ex *Exec, st *State, fr *Frame, callee *ssa.Function, args []Val, c *ssa.CallCommon, pos token.Pos) Val {
	ex.vc.Trust("archive model: AddFile records (name, content identity of the reader) in the ghost log $arc; a failed call records nothing; the zip writer copies what it reads")
	e := ex.vc.Fresh("arcerr", SRef)
	okc := eq(e, z64())
	ex.checkGhostAssign(st, "Ghost_arcCount", z64(), "$arc (the archive log)", pos)
	ck := "Ghost_arcCount"
	s := ArrS(SRef, BV(64))
	cnt := sel(ex.comp(st, ck, s), z64())
	ex.assume(st, app("bvsle", z64(), cnt))
	// what does the reader deliver?
	content := ex.vc.Fresh("arcsrc", BV(64))
	src := sc(args[1]).T
	if rec, has := ex.ifacePayload[src]; has {
		if p, ok := rec.v.(Sc); ok {
			switch {
			case strings.Contains(rec.t.String(), "os.File"):
				g := ex.gfile(st, ex.handleName(p.T))
				content = g.content()
			case strings.Contains(rec.t.String(), "bytes.Reader"):
				ex.vc.DeclareFun("ReaderContent", []Sort{SRef}, BV(64))
				content = app("ReaderContent", p.T)
			}
		}
	}
	nameS := ArrS(SRef, ArrS(BV(64), SStr))
	contS := ArrS(SRef, ArrS(BV(64), BV(64)))
	nm := ex.comp(st, "Ghost_arcName", nameS)
	ct := ex.comp(st, "Ghost_arcContent", contS)
	ex.setComp(st, "Ghost_arcName", nameS, sto(nm, z64(), ite(okc, sto(sel(nm, z64()), cnt, sc(args[2]).T), sel(nm, z64()))))
	ex.setComp(st, "Ghost_arcContent", contS, sto(ct, z64(), ite(okc, sto(sel(ct, z64()), cnt, content), sel(ct, z64()))))
	ex.setComp(st, ck, s, sto(ex.comp(st, ck, s), z64(), ite(okc, app("bvadd", cnt, bvInt(1, 64)), cnt)))
	return Sc{e, SRef}
}

// os.Open(path): read-only handle on an existing file.
func fsOpenRO(ex *Exec, st *State, fr *Frame, callee *ssa.Function, args []Val, c *ssa.CallCommon, pos token.Pos) Val {
	ex.vc.Trust(fsTrust)
	res := ex.valOrErrResults(st, c.Signature().Results(), "fs").(*Agg)
	h, errT := sc(res.F[0]).T, sc(res.F[1]).T
	name := ex.pathLast(sc(args[0]).T)
	g := ex.gfile(st, name)
	okc := eq(errT, z64())
	ex.assume(st, implies(okc, g.exists()))
	ex.assume(st, implies(okc, eq(ex.handleName(h), name)))
	ex.vc.DeclareFun("ErrNotExist", []Sort{SRef}, SBool)
	ex.assume(st, implies(app("ErrNotExist", errT), and(not(okc), not(g.exists()))))
	ex.ghostBumpIf(st, "$ioFail", and(not(okc), g.exists()))
	return res
}

// (*os.File).Close: no effect on the ghost files; a failure is an I/O failure.
func fsClose(ex *Exec, st *State, fr *Frame, callee *ssa.Function, args []Val, c *ssa.CallCommon, pos token.Pos) Val {
	e := ex.vc.Fresh("closeerr", SRef)
	ex.ghostBumpIf(st, "$ioFail", not(eq(e, z64())))
	return Sc{e, SRef}
}
