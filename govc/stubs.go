package main

import (
	"encoding/json"
	"go/types"
	"os"
)

func cmdSelftest(args []string) {}

func ptrTo(t types.Type) types.Type { return types.NewPointer(t) }

// propAssumptions reads the per-property list of sub-claims that are assumed,
// not proved (DESIGN sections 6 and 7).
func propAssumptions(prop string) []string {
	data, err := os.ReadFile("/verif/assumptions.json")
	if err != nil {
		return []string{"(assumptions.json missing)"}
	}
	var m map[string][]string
	if json.Unmarshal(data, &m) != nil {
		return []string{"(assumptions.json unreadable)"}
	}
	return append(append([]string{}, m["*"]...), m[prop]...)
}
