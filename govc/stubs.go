package main

import "go/types"

func cmdCheck(args []string)    {}
func cmdSelftest(args []string) {}
func cmdReplay(args []string)   {}

func ptrTo(t types.Type) types.Type { return types.NewPointer(t) }
