package main

// Replay of solver counterexamples against the real code. A replay driver is a
// Go test template under /verif/replay/<function>.go.tmpl whose header lists
// the inputs it needs as contract-language expressions over the function's
// entry state:
//
//	//replay:pkg server
//	//replay:input off = server.equipmentReportsOffset
//
// The model values of those expressions are substituted for {{off}} in the
// template, the test is injected with `go test -overlay` (nothing is written
// to /repo) and must print REPLAY-CONFIRMED for the violation to count as
// reproduced.

import (
	"encoding/json"
	"fmt"
	"go/ast"
	goparser "go/parser"
	"go/printer"
	"go/token"
	"math/big"
	"os"
	"os/exec"
	"path/filepath"
	"regexp"
	"strconv"
	"strings"
	"time"
)

type replayInput struct{ Name, Expr string }

type yieldSpec struct {
	File, Func string
	N          int
}

type replayDriver struct {
	Yields   []yieldSpec // schedule replays: insert zzYield("<func>#n") after the n-th Unlock() of Func in File
	Race     bool        // run the replay under the race detector
	Pkg      string
	Inputs   []replayInput
	Template string
	Kinds    []string // obligation kinds this driver can confirm ("" = all)
}

func driverFile(verifDir, fn string) string {
	return filepath.Join(verifDir, "replay", sanitizeFile(fn)+".go.tmpl")
}

func sanitizeFile(s string) string {
	return regexp.MustCompile(`[^A-Za-z0-9_.]`).ReplaceAllString(s, "_")
}

func loadDriver(verifDir, fn string) *replayDriver {
	data, err := os.ReadFile(driverFile(verifDir, fn))
	if err != nil {
		return nil
	}
	d := &replayDriver{Pkg: "server"}
	var body []string
	for _, line := range strings.Split(string(data), "\n") {
		switch {
		case strings.HasPrefix(line, "//replay:pkg "):
			d.Pkg = strings.TrimSpace(strings.TrimPrefix(line, "//replay:pkg "))
		case strings.HasPrefix(line, "//replay:yield "):
			f := strings.Fields(strings.TrimPrefix(line, "//replay:yield "))
			if len(f) == 3 {
				n, _ := strconv.Atoi(f[2])
				d.Yields = append(d.Yields, yieldSpec{f[0], f[1], n})
			}
		case strings.HasPrefix(line, "//replay:race"):
			d.Race = true
		case strings.HasPrefix(line, "//replay:kinds "):
			d.Kinds = strings.Fields(strings.TrimPrefix(line, "//replay:kinds "))
		case strings.HasPrefix(line, "//replay:input "):
			r := strings.TrimPrefix(line, "//replay:input ")
			i := strings.Index(r, "=")
			d.Inputs = append(d.Inputs, replayInput{strings.TrimSpace(r[:i]), strings.TrimSpace(r[i+1:])})
		default:
			body = append(body, line)
		}
	}
	d.Template = strings.Join(body, "\n")
	return d
}

var valueRe = regexp.MustCompile(`\(\s*(rv_[A-Za-z0-9_]+)\s+((?:#x[0-9a-fA-F]+)|(?:#b[01]+)|true|false|\(_ bv[0-9]+ [0-9]+\)|\(fp [^)]*\)|\(_ [+-]zero [0-9]+ [0-9]+\)|\(_ [+-]oo [0-9]+ [0-9]+\)|\(_ NaN [0-9]+ [0-9]+\))\s*\)`)

// modelValues evaluates the driver's input expressions in the entry state and
// asks the solver for their values in a counterexample of o.
func modelValues(ex *Exec, o *Obl, d *replayDriver, timeout int) (vals map[string]string, raw string, err error) {
	defer func() {
		if r := recover(); r != nil {
			err = fmt.Errorf("cannot evaluate replay inputs: %v", r)
		}
	}()
	fr := ex.topFrame
	vc := ex.vc
	before := len(vc.cmds)
	var names []string
	var extra []string
	for _, in := range d.Inputs {
		e, perr := parseExpr(in.Expr)
		if perr != nil {
			return nil, "", perr
		}
		es := fr.entry
		if o.lockSnap != nil {
			// inputs may speak about the state at the Lock() the obligation's path went through
			cp := *fr.entry
			cp.lockSnap = o.lockSnap
			es = &cp
		}
		c := ex.newCtx(fr, es, es, nil)
		tv := c.eval(e)
		tv = c.coerce(tv, nil)
		s, ok := tv.V.(Sc)
		if !ok {
			return nil, "", fmt.Errorf("replay input %s is not scalar", in.Name)
		}
		extra = append(extra, fmt.Sprintf("(define-fun rv_%s () %s %s)", in.Name, s.S, s.T))
		names = append(names, "rv_"+in.Name)
	}
	gen := append([]string{}, vc.cmds[before:]...)
	vc.cmds = vc.cmds[:before]
	o2 := *o
	o2.Extra = append(append(append([]string{}, o.Extra...), gen...), extra...)
	o2.Inputs = nil
	tail := fmt.Sprintf("(assert %s)\n(assert (not %s))\n%s(check-sat)\n(get-value (%s))\n", o.Guard, o.Goal, o.ExtraAssert, strings.Join(names, " "))
	seeds := append([]string{o.Guard, o.Goal, o.ExtraAssert}, extra...)
	dir, _ := os.MkdirTemp("", "govc-rv")
	defer os.RemoveAll(dir)
	file := filepath.Join(dir, "rv.smt2")
	var res solveResult
	for _, dropQ := range []bool{false, true} {
		o2.DropQuantified = dropQ
		q := o2.render(true, tail, seeds...)
		os.WriteFile(file, []byte(q), 0644)
		if d := os.Getenv("GOVC_KEEP"); d != "" {
			os.WriteFile(filepath.Join(d, fmt.Sprintf("rv_dropq_%v.smt2", dropQ)), []byte(q), 0644)
		}
		tmo := timeout
		if !dropQ && tmo > 8 {
			tmo = 8
		}
		for _, sp := range solvers[:2] {
			res = runSolver(sp, file, tmo)
			if res.status == "sat" {
				break
			}
		}
		if res.status == "sat" {
			break
		}
	}
	if res.status != "sat" {
		return nil, res.out, fmt.Errorf("no model (%s)", res.status)
	}
	vals = map[string]string{}
	for _, m := range valueRe.FindAllStringSubmatch(res.out, -1) {
		vals[strings.TrimPrefix(m[1], "rv_")] = m[2]
	}
	return vals, res.out, nil
}

// goLiteral renders an SMT value as a Go literal: decimal for <= 64 bits, a
// quoted hex string for wider vectors.
func goLiteral(v string) string {
	switch {
	case v == "true" || v == "false":
		return v
	case strings.HasPrefix(v, "#x"):
		if len(v)-2 <= 16 {
			n, _ := new(big.Int).SetString(v[2:], 16)
			return n.String()
		}
		return `"` + v[2:] + `"`
	case strings.HasPrefix(v, "#b"):
		n, _ := new(big.Int).SetString(v[2:], 2)
		if len(v)-2 <= 64 {
			return n.String()
		}
		return `"` + n.Text(16) + `"`
	case strings.HasPrefix(v, "(_ bv"):
		var n, w string
		fmt.Sscanf(v, "(_ bv%s %s", &n, &w)
		return n
	case strings.HasPrefix(v, "(fp "):
		f := strings.Fields(strings.Trim(v, "()"))
		if len(f) == 4 {
			bits := strings.TrimPrefix(f[1], "#b") + strings.TrimPrefix(f[2], "#b")
			m := f[3]
			if strings.HasPrefix(m, "#x") {
				mi, _ := new(big.Int).SetString(m[2:], 16)
				bits += fmt.Sprintf("%052b", mi)
			} else {
				bits += strings.TrimPrefix(m, "#b")
			}
			n, _ := new(big.Int).SetString(bits, 2)
			return fmt.Sprintf("math.Float64frombits(%s)", n.String())
		}
	case strings.Contains(v, "+zero"):
		return "0.0"
	case strings.Contains(v, "-zero"):
		return "math.Copysign(0, -1)"
	case strings.Contains(v, "+oo"):
		return "math.Inf(1)"
	case strings.Contains(v, "-oo"):
		return "math.Inf(-1)"
	case strings.Contains(v, "NaN"):
		return "math.NaN()"
	}
	return v
}

// instrumentYield re-parses a source file of /repo and inserts
// zzYield("<func>#<n>") after the n-th Unlock() statement of the function.
// The copy is only used through go test -overlay.
func instrumentYield(repo string, ys []yieldSpec, file string) (string, error) {
	fset := token.NewFileSet()
	f, err := goparser.ParseFile(fset, filepath.Join(repo, file), nil, goparser.ParseComments)
	if err != nil {
		return "", err
	}
	for _, y := range ys {
		if y.File != file {
			continue
		}
		for _, d := range f.Decls {
			fd, ok := d.(*ast.FuncDecl)
			if !ok || fd.Name.Name != y.Func || fd.Body == nil {
				continue
			}
			count := 0
			var visit func(list []ast.Stmt) []ast.Stmt
			visit = func(list []ast.Stmt) []ast.Stmt {
				var out []ast.Stmt
				for _, st := range list {
					switch x := st.(type) {
					case *ast.BlockStmt:
						x.List = visit(x.List)
					case *ast.IfStmt:
						x.Body.List = visit(x.Body.List)
						if eb, ok := x.Else.(*ast.BlockStmt); ok {
							eb.List = visit(eb.List)
						}
					case *ast.ForStmt:
						x.Body.List = visit(x.Body.List)
					case *ast.RangeStmt:
						x.Body.List = visit(x.Body.List)
					}
					out = append(out, st)
					if es, ok := st.(*ast.ExprStmt); ok {
						if call, ok := es.X.(*ast.CallExpr); ok {
							if sel, ok := call.Fun.(*ast.SelectorExpr); ok && sel.Sel.Name == "Unlock" {
								count++
								if count == y.N {
									out = append(out, &ast.ExprStmt{X: &ast.CallExpr{Fun: ast.NewIdent("zzYield"),
										Args: []ast.Expr{&ast.BasicLit{Kind: token.STRING, Value: fmt.Sprintf("%q", fmt.Sprintf("%s#%d", y.Func, y.N))}}}})
								}
							}
						}
					}
				}
				return out
			}
			fd.Body.List = visit(fd.Body.List)
		}
	}
	var b strings.Builder
	if err := printer.Fprint(&b, fset, f); err != nil {
		return "", err
	}
	return b.String(), nil
}

func runReplayTest(repo, pkg, src string, timeoutS int, race bool, yields ...yieldSpec) (string, error) {
	dir, err := os.MkdirTemp("", "govc-replay")
	if err != nil {
		return "", err
	}
	defer os.RemoveAll(dir)
	testFile := filepath.Join(dir, "zz_replay_test.go")
	os.WriteFile(testFile, []byte(src), 0644)
	ov := map[string]map[string]string{"Replace": {filepath.Join(repo, pkg, "zz_replay_test.go"): testFile}}
	files := map[string]bool{}
	for _, y := range yields {
		files[y.File] = true
	}
	for file := range files {
		inst, err := instrumentYield(repo, yields, file)
		if err != nil {
			return "instrumentation failed: " + err.Error(), err
		}
		cp := filepath.Join(dir, "inst_"+filepath.Base(file))
		os.WriteFile(cp, []byte(inst), 0644)
		ov["Replace"][filepath.Join(repo, file)] = cp
	}
	js, _ := json.Marshal(ov)
	ovFile := filepath.Join(dir, "ov.json")
	os.WriteFile(ovFile, js, 0644)
	args := []string{"test", "-tags", "test", "-overlay", ovFile, "-vet=off", "-count=1", "-v", fmt.Sprintf("-timeout=%ds", timeoutS), "-run", "TestZZReplay"}
	if race {
		args = append(args, "-race")
	}
	args = append(args, "./"+pkg+"/")
	cmd := exec.Command("go", args...)
	cmd.Dir = repo
	cmd.Env = append(os.Environ(), "GOFLAGS=-mod=mod", "GOPROXY=off", "GOSUMDB=off", "GOTOOLCHAIN=local", "TMPDIR="+dir)
	done := make(chan struct{})
	var out []byte
	go func() { out, err = cmd.CombinedOutput(); close(done) }()
	select {
	case <-done:
	case <-time.After(time.Duration(timeoutS+60) * time.Second):
		cmd.Process.Kill()
		<-done
	}
	return string(out), err
}

// tryReplay: returns the replay transcript and whether the real code
// reproduced the violation.
func tryReplay(cr *checkRun, o *Obl) (string, bool) {
	ex := cr.oblExec[o]
	if ex == nil {
		return "", false
	}
	d := loadDriver(cr.verifDir, o.Func)
	if d == nil {
		return "no replay driver for " + o.Func + " (model only)", false
	}
	if len(d.Kinds) > 0 {
		ok := false
		for _, k := range d.Kinds {
			if strings.HasPrefix(o.Kind, k) {
				ok = true
			}
		}
		if !ok {
			return "replay driver for " + o.Func + " does not cover obligation kind " + o.Kind, false
		}
	}
	vals, raw, err := modelValues(ex, o, d, cr.timeout)
	if err != nil {
		return "model extraction failed: " + err.Error() + "\n" + raw, false
	}
	src := d.Template
	for _, in := range d.Inputs {
		v, ok := vals[in.Name]
		if !ok {
			return "model has no value for " + in.Name + "\n" + raw, false
		}
		src = strings.ReplaceAll(src, "{{"+in.Name+"}}", goLiteral(v))
	}
	out, _ := runReplayTest(cr.repo, d.Pkg, src, 120, d.Race, d.Yields...)
	confirmed := strings.Contains(out, "REPLAY-CONFIRMED") || (d.Race && strings.Contains(out, "WARNING: DATA RACE"))
	var b strings.Builder
	fmt.Fprintf(&b, "model: %v\n--- generated test ---\n%s\n--- go test output ---\n%s", vals, src, out)
	return b.String(), confirmed
}

func cmdReplay(args []string) {
	// govc replay FILE: print the stored replay record (the generated test and
	// its output are inside it)
	if len(args) < 1 {
		usage()
	}
	data, err := os.ReadFile(args[0])
	if err != nil {
		fmt.Println(err)
		os.Exit(2)
	}
	var rec map[string]interface{}
	json.Unmarshal(data, &rec)
	fmt.Printf("obligation: %v\nresult: %v\nreplayed: %v\n\n%v\n\n%v\n", rec["obligation"], rec["result"], rec["replayed"], rec["solver_output"], rec["replay_output"])
}
