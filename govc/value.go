package main

// Symbolic values. A Go value is a tree whose leaves are SMT terms:
//   scalars, pointers, maps, interfaces, strings  -> one leaf (Sc)
//   structs / tuples / slices                     -> Agg of children
//   arrays [N]T (not packed)                      -> Arr: the element tree with
//                                                    every leaf wrapped in (Array BV64 .)
//   byte arrays with N <= 64                      -> one leaf of sort BV(8N) ("packed")
// Heap components use the same trees with every leaf wrapped in (Array Ref .).

import (
	"regexp"
	"fmt"
	"go/types"
	"strings"

	"golang.org/x/tools/go/ssa"
)

type Val interface{}

type Sc struct {
	T string
	S Sort
}

type Agg struct{ F []Val }

type Arr struct{ E Val }

// PtrI is a pointer into the interior of an object or to a local cell. It only
// lives in registers and cells of the executor.
type PtrI struct{ A *Addr }

// SliceI is a slice whose backing store is an addressable array that is not a
// root element memory (a local array, an array field). Executor only.
type SliceI struct {
	A             *Addr // address of the array
	Off, Len, Cap string
}

// Clo is a closure value: a static function plus its bindings.
type Clo struct {
	Fn    *ssa.Function
	Binds []Val
}

type Kind int

const (
	KScalar Kind = iota
	KStruct
	KArr
	KPacked
	KSlice
	KPtr
	KMap
	KIface
	KStr
	KFunc
	KTuple
	KOpaque
	KTime
)

const packedMaxBytes = 64

var aliasRe = regexp.MustCompile(`\b(byte|rune)\b`)

func typeKey(t types.Type) string {
	s := types.TypeString(t, func(p *types.Package) string { return p.Name() })
	// byte and rune are aliases: []byte and []uint8 share their memory component
	s = aliasRe.ReplaceAllStringFunc(s, func(m string) string {
		if m == "byte" {
			return "uint8"
		}
		return "int32"
	})
	r := strings.NewReplacer("*", "P", "[", "_", "]", "_", ".", "_", " ", "", "{", "_", "}", "_", ";", "_", "(", "_", ")", "_", ",", "_", "/", "_", "$", "_")
	return r.Replace(s)
}

var opaqueNamed = map[string]bool{
	"sync.Mutex": true, "sync.RWMutex": true, "sync.Once": true, "sync.WaitGroup": true,
	"sync/atomic.Bool": true, "sync/atomic.Uint32": true, "sync/atomic.Int64": true,
	"github.com/glowlabs-org/threadgroup.ThreadGroup": true,
	"net/http.Server": true, "net/http.ServeMux": true, "net/http.Request": true,
	"net/http.Client": true, "net/http.Response": true, "net/url.URL": true,
	"os.File": true, "net.TCPConn": true, "net.UDPConn": true, "net.UDPAddr": true, "net.TCPAddr": true,
	"encoding/csv.Reader": true, "bufio.Scanner": true, "archive/zip.Writer": true,
	"encoding/json.Decoder": true, "encoding/json.Encoder": true,
	"github.com/glowlabs-org/gca-backend/glow.SafeMu": true,
	"time.Location": true, "time.Timer": true, "time.Ticker": true,
	"math/big.Int": true, "crypto/ecdsa.PrivateKey": true, "crypto/ecdsa.PublicKey": true,
	"bytes.Reader": true, "strings.Builder": true, "log.Logger": true,
	"context.Context": true,
}

func namedString(t types.Type) string {
	if n, ok := t.(*types.Named); ok {
		if n.Obj().Pkg() != nil {
			return n.Obj().Pkg().Path() + "." + n.Obj().Name()
		}
		return n.Obj().Name()
	}
	return ""
}

func kindOf(t types.Type) Kind {
	t = types.Unalias(t)
	if ns := namedString(t); ns != "" {
		if ns == "time.Time" {
			return KTime
		}
		if opaqueNamed[ns] {
			return KOpaque
		}
	}
	switch u := t.Underlying().(type) {
	case *types.Basic:
		if u.Info()&types.IsString != 0 {
			return KStr
		}
		if u.Kind() == types.UnsafePointer {
			return KPtr
		}
		return KScalar
	case *types.Struct:
		return KStruct
	case *types.Array:
		if isByteLike(u.Elem()) && u.Len() <= packedMaxBytes && u.Len() > 0 {
			return KPacked
		}
		return KArr
	case *types.Slice:
		return KSlice
	case *types.Pointer:
		return KPtr
	case *types.Map:
		return KMap
	case *types.Interface:
		return KIface
	case *types.Signature:
		return KFunc
	case *types.Chan:
		return KOpaque
	case *types.Tuple:
		return KTuple
	}
	panic(fmt.Sprintf("kindOf: %T %v", t, t))
}

func isByteLike(t types.Type) bool {
	b, ok := t.Underlying().(*types.Basic)
	return ok && (b.Kind() == types.Uint8 || b.Kind() == types.Int8)
}

func basicSort(b *types.Basic) Sort {
	switch b.Kind() {
	case types.Bool, types.UntypedBool:
		return SBool
	case types.Int8, types.Uint8:
		return BV(8)
	case types.Int16, types.Uint16:
		return BV(16)
	case types.Int32, types.Uint32, types.UntypedRune:
		return BV(32)
	case types.Int64, types.Uint64, types.Int, types.Uint, types.Uintptr, types.UntypedInt:
		return BV(64)
	case types.Float64, types.UntypedFloat:
		return SFP
	case types.Float32:
		return BV(32) // opaque; not used arithmetically in the verified code
	case types.String, types.UntypedString:
		return SStr
	case types.UnsafePointer, types.UntypedNil:
		return SRef
	case types.Complex128, types.Complex64:
		return BV(64)
	}
	panic("basicSort: " + b.String())
}

func isSigned(t types.Type) bool {
	b, ok := t.Underlying().(*types.Basic)
	return ok && b.Info()&types.IsInteger != 0 && b.Info()&types.IsUnsigned == 0
}

func isFloat(t types.Type) bool {
	b, ok := t.Underlying().(*types.Basic)
	return ok && b.Info()&types.IsFloat != 0
}

func isInteger(t types.Type) bool {
	b, ok := t.Underlying().(*types.Basic)
	return ok && b.Info()&types.IsInteger != 0
}

// scalarSort returns the leaf sort of a single-leaf type.
func scalarSort(t types.Type) Sort {
	switch kindOf(t) {
	case KScalar:
		return basicSort(t.Underlying().(*types.Basic))
	case KStr:
		return SStr
	case KPacked:
		return BV(8 * int(t.Underlying().(*types.Array).Len()))
	case KPtr, KMap, KIface, KFunc, KOpaque:
		return SRef
	case KTime:
		return BV(64)
	}
	panic("scalarSort: not a single-leaf type: " + t.String())
}

func isSingleLeaf(t types.Type) bool {
	switch kindOf(t) {
	case KStruct, KArr, KSlice, KTuple:
		return false
	}
	return true
}

// mkVal builds a value tree for type t. gen is called for every leaf with a
// dotted path and the (wrapped) sort.
func mkVal(t types.Type, path string, wrap func(Sort) Sort, gen func(path string, s Sort) string) Val {
	if wrap == nil {
		wrap = func(s Sort) Sort { return s }
	}
	switch kindOf(t) {
	case KStruct:
		st := t.Underlying().(*types.Struct)
		a := &Agg{}
		for i := 0; i < st.NumFields(); i++ {
			a.F = append(a.F, mkVal(st.Field(i).Type(), path+"_"+st.Field(i).Name(), wrap, gen))
		}
		return a
	case KTuple:
		tu := t.(*types.Tuple)
		a := &Agg{}
		for i := 0; i < tu.Len(); i++ {
			a.F = append(a.F, mkVal(tu.At(i).Type(), fmt.Sprintf("%s_%d", path, i), wrap, gen))
		}
		return a
	case KSlice:
		a := &Agg{}
		for _, n := range []string{"ref", "off", "len", "cap"} {
			s := wrap(BV(64))
			a.F = append(a.F, Sc{gen(path+"_"+n, s), s})
		}
		return a
	case KArr:
		el := t.Underlying().(*types.Array).Elem()
		return &Arr{mkVal(el, path+"_el", func(s Sort) Sort { return wrap(ArrS(BV(64), s)) }, gen)}
	default:
		s := wrap(scalarSort(t))
		return Sc{gen(path, s), s}
	}
}

func zeroVal(t types.Type) Val {
	return mkVal(t, "", nil, func(_ string, s Sort) string { return zeroOf(s) })
}

func leafMap(v Val, f func(Sc) Sc) Val {
	switch x := v.(type) {
	case Sc:
		return f(x)
	case *Agg:
		n := &Agg{F: make([]Val, len(x.F))}
		for i, c := range x.F {
			n.F[i] = leafMap(c, f)
		}
		return n
	case *Arr:
		return &Arr{leafMap(x.E, f)}
	case nil:
		return nil
	}
	panic(fmt.Sprintf("leafMap: exec-only value %T", v))
}

func leafZip(a, b Val, f func(x, y Sc) Sc) Val {
	switch x := a.(type) {
	case Sc:
		y, ok := b.(Sc)
		if !ok {
			panic(fmt.Sprintf("leafZip: shape mismatch Sc vs %T", b))
		}
		return f(x, y)
	case *Agg:
		y, ok := b.(*Agg)
		if !ok || len(x.F) != len(y.F) {
			panic(fmt.Sprintf("leafZip: shape mismatch Agg vs %T", b))
		}
		n := &Agg{F: make([]Val, len(x.F))}
		for i := range x.F {
			n.F[i] = leafZip(x.F[i], y.F[i], f)
		}
		return n
	case *Arr:
		y, ok := b.(*Arr)
		if !ok {
			panic(fmt.Sprintf("leafZip: shape mismatch Arr vs %T", b))
		}
		return &Arr{leafZip(x.E, y.E, f)}
	}
	panic(fmt.Sprintf("leafZip: exec-only value %T", a))
}

func leavesOf(v Val) []Sc {
	var out []Sc
	var rec func(Val)
	rec = func(v Val) {
		switch x := v.(type) {
		case Sc:
			out = append(out, x)
		case *Agg:
			for _, c := range x.F {
				rec(c)
			}
		case *Arr:
			rec(x.E)
		case nil:
		default:
			panic(fmt.Sprintf("leavesOf: exec-only value %T", v))
		}
	}
	rec(v)
	return out
}

func isExecOnly(v Val) bool {
	switch x := v.(type) {
	case *PtrI, *SliceI, *Clo:
		return true
	case *Agg:
		for _, c := range x.F {
			if isExecOnly(c) {
				return true
			}
		}
	case *Arr:
		return isExecOnly(x.E)
	}
	return false
}

func sc(v Val) Sc {
	s, ok := v.(Sc)
	if !ok {
		panic(fmt.Sprintf("expected scalar value, got %T", v))
	}
	return s
}

// ---------------------------------------------------------------------------
// Addresses

type AKind int

const (
	ACell   AKind = iota // a non-escaping local
	AHeap                // root object of type Root at Ref
	AElems               // element memory of element type Root at Ref (arrays behind pointers, slice backing stores)
	AGlobal              // package-level variable
)

type PathEl struct {
	IsIdx bool
	Field int
	Idx   string // BV64 term
}

type Addr struct {
	Kind AKind
	Cell *ssa.Alloc
	Glob *ssa.Global
	Root types.Type
	// ArrLen is the static length when an AElems address denotes a whole
	// array behind a *[N]T pointer (Path empty); -1 otherwise.
	ArrLen int64
	Ref    string
	Path   []PathEl
}

func (a *Addr) ext(p PathEl) *Addr {
	n := *a
	n.Path = append(append([]PathEl{}, a.Path...), p)
	return &n
}

func (a *Addr) String() string {
	var b strings.Builder
	switch a.Kind {
	case ACell:
		fmt.Fprintf(&b, "cell(%s)", a.Cell.Comment)
	case AHeap:
		fmt.Fprintf(&b, "heap(%s@%s)", typeKey(a.Root), a.Ref)
	case AElems:
		fmt.Fprintf(&b, "elems(%s@%s)", typeKey(a.Root), a.Ref)
	case AGlobal:
		fmt.Fprintf(&b, "global(%s)", a.Glob.Name())
	}
	for _, p := range a.Path {
		if p.IsIdx {
			fmt.Fprintf(&b, "[%s]", p.Idx)
		} else {
			fmt.Fprintf(&b, ".%d", p.Field)
		}
	}
	return b.String()
}

// rootValueType is the Go type of the value the address's root tree stands
// for, before the path is applied.
func (a *Addr) rootValueType() types.Type {
	switch a.Kind {
	case ACell:
		return a.Cell.Type().Underlying().(*types.Pointer).Elem()
	case AGlobal:
		return a.Glob.Type().Underlying().(*types.Pointer).Elem()
	case AHeap:
		return a.Root
	case AElems:
		n := a.ArrLen
		if n < 0 {
			n = 1 << 40
		}
		return types.NewArray(a.Root, n)
	}
	panic("rootValueType")
}

// typeAt walks the path and returns the Go type of the addressed location.
func (a *Addr) typeAt() types.Type {
	t := a.rootValueType()
	for _, p := range a.Path {
		if p.IsIdx {
			t = t.Underlying().(*types.Array).Elem()
		} else {
			t = t.Underlying().(*types.Struct).Field(p.Field).Type()
		}
	}
	return t
}

// typeAtOpaque walks the path through real Go struct types even where the
// verifier treats an enclosing type as opaque.
func (a *Addr) typeAtOpaque() types.Type {
	var t types.Type
	path := a.Path
	switch a.Kind {
	case AElems:
		t = a.Root
		path = path[1:]
	default:
		t = a.rootValueType()
	}
	for _, p := range path {
		if p.IsIdx {
			t = t.Underlying().(*types.Array).Elem()
		} else {
			t = t.Underlying().(*types.Struct).Field(p.Field).Type()
		}
	}
	return t
}
