package main

// Per-function verification driver: entry state, contract assumption,
// post-condition obligations, lock invariants, assigns checks, lemmas.

import (
	"fmt"
	"go/token"
	"go/types"
	"sort"
	"strings"

	"golang.org/x/tools/go/ssa"
)

type assignPat struct {
	anyRef bool // every object of the component family
	prefix string
	ref    string // "" = any object
	idx    string // "" = any index / not indexed
	isMap  bool
	text   string
}

// VerifyFunc generates the obligations of one function under its contract
// (ct may be nil: safety sweep only).
func VerifyFunc(ld *Loader, db *ContractDB, fn *ssa.Function, ct *FuncContract, opts verifyOpts) (vc *VC, ex *Exec, err error) {
	ex = newExec(ld, db, fn)
	canonTerm = func(t string) string {
		for i := 0; i < 50; i++ {
			d, ok := ex.vc.defs[t]
			if !ok {
				break
			}
			t = d
		}
		return t
	}
	ex.lockChecks = opts.lockChecks
	ex.fpUF = opts.fpUF
	if ct != nil {
		ex.props = ct.Props
		if v, ok := ct.Opts["inline"]; ok {
			fmt.Sscanf(v, "%d", &ex.maxInline)
		}
		if ct.Opts["nosafety"] == "true" {
			ex.noSafety = true
		}
		if ct.Opts["fpuf"] == "true" {
			ex.fpUF = true
		}
		for _, n := range strings.Fields(ct.Opts["reveal"]) {
			ex.revealed[n] = true
		}
	}
	defer func() {
		if r := recover(); r != nil {
			switch e := r.(type) {
			case unsupportedErr:
				err = fmt.Errorf("unsupported: %s", e.msg)
			case evalErr:
				err = fmt.Errorf("contract error: %s", e.msg)
			default:
				panic(r)
			}
			vc = ex.vc
		}
	}()
	st := &State{guard: "true", cells: map[*ssa.Alloc]Val{}, globs: map[*ssa.Global]Val{}, heap: map[string]string{}, locks: map[string]string{}, ghost: map[string]Val{}}
	ex.vc.DeclareOnce("alloc0", ArrS(SRef, SBool))
	st.alloc = "alloc0"
	ex.vc.Assume(not(sel("alloc0", z64())))
	fr := &Frame{fn: fn, regs: map[ssa.Value]Val{}, ct: ct}
	ex.topFrame = fr
	for _, p := range fn.Params {
		v := mkVal(p.Type(), "p_"+p.Name(), nil, func(path string, s Sort) string {
			n := sanitize(path)
			ex.vc.DeclareOnce(n, s)
			ex.vc.inputs = append(ex.vc.inputs, namedTerm{path, n, s})
			return n
		})
		ex.typeInv(nil, v, p.Type())
		ex.validRefs(st, v, p.Type())
		fr.params = append(fr.params, v)
	}
	for _, fv := range fn.FreeVars {
		// closure verified on its own: captured variables are arbitrary cells
		pt := fv.Type().Underlying().(*types.Pointer)
		r := ex.vc.Fresh("fv_"+fv.Name(), SRef)
		ex.vc.Assume(and(not(eq(r, z64())), sel("alloc0", r)))
		_ = pt
		fr.regs[fv] = Sc{r, SRef}
	}
	// receiver / pointer params that denote the object: assume non-nil receivers
	if fn.Signature.Recv() != nil && len(fr.params) > 0 {
		if s, ok := fr.params[0].(Sc); ok && kindOf(fn.Params[0].Type()) == KPtr {
			ex.vc.Assume(not(eq(s.T, z64())))
		}
	}
	fr.entry = st.clone()
	if ct != nil {
		// lock state named by requires clauses
		for _, rq := range ct.Requires {
			ex.seedLocks(fr, st, rq.Expr)
		}
		for k := range st.locks {
			ex.heldAtEntry[k] = true
		}
		fr.entry = st.clone()
		for _, rq := range ct.Requires {
			for _, e := range flattenAnd(rq.Expr) {
				for _, part := range ex.splitClause(fr, st, nil, Clause{Expr: e, Text: exprText(e)}) {
					ex.vc.Assume(part.term)
				}
			}
		}
		fr.entry = st.clone()
		for _, ap := range ct.Applies {
			c := ex.newCtx(fr, st, fr.entry, nil)
			ex.vc.Assume(ex.applyLemma(fr, st, c, ap, funcName(fn)))
		}
		if ct.HasAssigns {
			ex.compileAssigns(fr, st, ct)
		}
	}
	ex.entryLocks = map[string]string{}
	for k, v := range st.locks {
		ex.entryLocks[k] = v
	}
	out, res := ex.execBody(fr, st)
	if out != nil {
		ex.vc.exitGuard = out.guard
		ex.vc.exitPrefix = len(ex.vc.cmds)
		// lock balance at return
		if ex.lockChecks {
			keys := map[string]bool{}
			for k := range out.locks {
				keys[k] = true
			}
			for k := range ex.entryLocks {
				keys[k] = true
			}
			ks := sortedKeys(keys)
			for _, k := range ks {
				want := "false"
				if v, ok := ex.entryLocks[k]; ok {
					want = v
				}
				if lockTerm(out, k) != want {
					ex.oblige(out, fr, "lock-balance", token.NoPos, "return: "+k, eq(lockTerm(out, k), want))
				}
			}
		}
		ex.checkGuardedEscape(fr, out, res)
		if ct != nil && ct.Opts["trust_ensures"] == "true" {
			for _, en := range ct.Ensures {
				ex.vc.Trust("ASSUMED specification of " + funcName(fn) + " (not proved): " + en.Text)
				ex.abstracted["ASSUMED (not proved): ensures of "+funcName(fn)+": "+en.Text] = true
			}
		} else if ct != nil && ct.Opts["per_exit"] == "true" {
			// post-conditions are proved at every return statement separately
			// (smaller queries than on the merged exit state); locals that are
			// not yet declared at an early return read their merged-exit value
			ex.exitFallback = out
			for _, e := range fr.exits {
				if e.st.guard == "false" {
					continue
				}
				for _, en := range ct.Ensures {
					if hasProp(en.Props, "assumed") {
						ex.vc.Trust("ASSUMED specification of " + funcName(fn) + " (not proved): " + en.Text)
						ex.abstracted["ASSUMED (not proved): ensures of "+funcName(fn)+": "+en.Text] = true
						continue
					}
					for _, part := range ex.splitClauseE(fr, e.st, e.results, en) {
						if sk, ok := ex.skolemWithHyps(fr, e.st, part); ok {
							part.term = sk
						}
						o := ex.oblige(e.st, fr, "post", token.NoPos, part.text, part.term)
						if o != nil && len(en.Props) > 0 {
							o.Props = en.Props
						}
					}
				}
			}
			ex.exitFallback = nil
		} else if ct != nil {
			for _, en := range ct.Ensures {
				if hasProp(en.Props, "assumed") {
					// a clause the callers may rely on but that is not proved here
					ex.vc.Trust("ASSUMED specification of " + funcName(fn) + " (not proved): " + en.Text)
					ex.abstracted["ASSUMED (not proved): ensures of "+funcName(fn)+": "+en.Text] = true
					continue
				}
				for _, part := range ex.splitClauseE(fr, out, res, en) {
					if sk, ok := ex.skolemWithHyps(fr, out, part); ok {
						part.term = sk
					}
					o := ex.oblige(out, fr, "post", token.NoPos, part.text, part.term)
					if o != nil && len(en.Props) > 0 {
						o.Props = en.Props
					}
				}
			}
		}
	}
	return ex.vc, ex, nil
}

func sortedKeys(m map[string]bool) []string {
	ks := make([]string, 0, len(m))
	for k := range m {
		ks = append(ks, k)
	}
	sort.Strings(ks)
	return ks
}

type verifyOpts struct {
	lockChecks bool
	fpUF       bool
}

// seedLocks finds held(e) conjuncts in a requires clause and marks the lock
// as held in the entry state.
func (ex *Exec) seedLocks(fr *Frame, st *State, e Expr) {
	switch x := e.(type) {
	case *EBin:
		if x.Op == "&&" {
			ex.seedLocks(fr, st, x.X)
			ex.seedLocks(fr, st, x.Y)
		}
	case *ECall:
		if x.Fn == "held" {
			c := ex.newCtx(fr, st, st, nil)
			v := c.eval(x.Args[0])
			if k, ok := lockKey(v.V); ok {
				st.locks[k] = "true"
			}
		}
	}
}

// ---------------------------------------------------------------------------
// lock declarations

func ownerName(t types.Type) string {
	if n, ok := t.(*types.Named); ok && n.Obj().Pkg() != nil {
		return n.Obj().Pkg().Name() + "." + n.Obj().Name()
	}
	return ""
}

func siteOf(ps []string) int {
	for _, p := range ps {
		var n int
		if _, err := fmt.Sscanf(p, "site=%d", &n); err == nil {
			return n
		}
	}
	return 0
}

func propsOnly(ps []string) []string {
	var out []string
	for _, p := range ps {
		if !strings.HasPrefix(p, "site=") {
			out = append(out, p)
		}
	}
	return out
}

// unlockOrdinal: 1-based position of the Unlock call at pos among the calls
// and defers of sync.Mutex.Unlock in fn, in source order.
func unlockOrdinal(fn *ssa.Function, pos token.Pos) int {
	var ps []token.Pos
	for _, b := range fn.Blocks {
		for _, in := range b.Instrs {
			var c *ssa.CallCommon
			var p token.Pos
			switch x := in.(type) {
			case *ssa.Call:
				c, p = x.Common(), x.Pos()
			case *ssa.Defer:
				c, p = x.Common(), x.Pos()
			}
			if c == nil {
				continue
			}
			if f, ok := c.Value.(*ssa.Function); ok && strings.HasSuffix(f.String(), ".Unlock") {
				ps = append(ps, p)
			}
		}
	}
	sort.Slice(ps, func(i, j int) bool { return ps[i] < ps[j] })
	for i, p := range ps {
		if p == pos {
			return i + 1
		}
	}
	return 0
}

// lockDeclFor finds the lock declaration for a mutex address: the mutex is a
// field of a (possibly nested) struct; the owner is the struct that directly
// contains it. Returns the declaration, the owner's address and type.
func (ex *Exec) lockDeclFor(a *Addr) (*LockDecl, *Addr, types.Type) {
	if a.Kind != AHeap || len(a.Path) == 0 {
		return nil, nil, nil
	}
	t := a.Root
	for i, el := range a.Path {
		if el.IsIdx {
			return nil, nil, nil
		}
		st, ok := t.Underlying().(*types.Struct)
		if !ok {
			return nil, nil, nil
		}
		if i == len(a.Path)-1 {
			on := ownerName(t)
			fname := st.Field(el.Field).Name()
			for _, ld := range ex.db.locks {
				if ld.Owner == on && ld.MuField == fname {
					owner := *a
					owner.Path = a.Path[:i]
					return ld, &owner, t
				}
			}
			return nil, nil, nil
		}
		t = st.Field(el.Field).Type()
	}
	return nil, nil, nil
}

// reachableComps: component prefixes reachable from the guarded fields of the
// owner type.
func (ex *Exec) reachableComps(ownerAddr *Addr, owner types.Type, ld *LockDecl) map[string]bool {
	out := map[string]bool{}
	seen := map[string]bool{}
	var visit func(t types.Type)
	visit = func(t types.Type) {
		key := t.String()
		if seen[key] {
			return
		}
		seen[key] = true
		switch kindOf(t) {
		case KStruct:
			s := t.Underlying().(*types.Struct)
			for i := 0; i < s.NumFields(); i++ {
				visit(s.Field(i).Type())
			}
		case KArr:
			visit(t.Underlying().(*types.Array).Elem())
		case KSlice:
			el := t.Underlying().(*types.Slice).Elem()
			out[rootKey(AElems, el)] = true
			visit(el)
		case KPtr:
			pt, ok := t.Underlying().(*types.Pointer)
			if !ok {
				return
			}
			el := pt.Elem()
			if kindOf(el) == KOpaque {
				return
			}
			if kindOf(el) == KArr {
				ae := el.Underlying().(*types.Array).Elem()
				out[rootKey(AElems, ae)] = true
				visit(ae)
			} else {
				out[rootKey(AHeap, el)] = true
				visit(el)
			}
		case KMap:
			mt := t.Underlying().(*types.Map)
			out["Map_"+typeKey(mt)] = true
			visit(mt.Elem())
		}
	}
	st := owner.Underlying().(*types.Struct)
	base := addrCompPrefix(ownerAddr)
	for i := 0; i < st.NumFields(); i++ {
		f := st.Field(i)
		if ld.Guarded[f.Name()] {
			out[base+"_"+f.Name()] = true
			visit(f.Type())
		}
	}
	return out
}

func (ex *Exec) onLock(st *State, fr *Frame, k string, recv Val, pos token.Pos) {
	p, ok := recv.(*PtrI)
	if !ok {
		return
	}
	ld, ownerAddr, ownerT := ex.lockDeclFor(p.A)
	if ld == nil {
		return
	}
	ref := ownerAddr.Ref
	// havoc everything the lock guards (interference from other goroutines),
	// keeping the content of local objects that have not escaped
	prefixes := ex.reachableComps(ownerAddr, ownerT, ld)
	old := st.clone()
	ex.epochs++
	ex.epochInfo[ex.epochs] = epochInfo{parent: st.epoch, prefixes: prefixes}
	st.epoch = ex.epochs
	ex.havocComps(st, prefixes)
	for _, r := range ex.localRefs {
		if ex.escaped[r] {
			continue
		}
		for _, key := range sortedCompKeys(ex.comps) {
			if _, touched := old.heap[key]; !touched {
				continue
			}
			hit := false
			for p := range prefixes {
				if hasPrefix(key, p) {
					hit = true
				}
			}
			if hit {
				ci := ex.comps[key]
				ex.assume(st, eq(sel(ex.comp(st, key, ci.sort), r), sel(ex.comp(old, key, ci.sort), r)))
			}
		}
	}
	if ld.Inv != "" && len(ownerAddr.Path) == 0 {
		parts := ex.invConjunctsE(fr, st, ld, ref, ownerT)
		for _, cj := range parts {
			ex.assume(st, cj.term)
		}
		hs := st.clone()
		hs.lockSnap = nil
		ex.hyps = append(ex.hyps, hypRecord{state: hs, parts: parts})
	}
	// contract clauses that speak about the state right after this Lock()
	if top := ex.topFrame; top != nil && top.ct != nil && fr == top {
		snap0 := st.clone()
		snap0.lockSnap = nil
		st.lockSnap = snap0
		for _, cl := range top.ct.AfterLockAssume {
			ex.assume(st, ex.evalBool(top, st, top.entry, nil, cl.Expr))
			ex.vc.Trust("assumed after Lock() in " + funcName(top.fn) + ": " + cl.Text)
		}
		for _, ap := range top.ct.AfterLockApply {
			c := ex.newCtx(top, st, top.entry, nil)
			ex.assume(st, ex.applyLemma(top, st, c, ap, funcName(top.fn)))
		}
	}
	snap := st.clone()
	snap.lockSnap = nil
	st.lockSnap = snap
}

func sortedCompKeys(m map[string]compInfo) []string {
	ks := make([]string, 0, len(m))
	for k := range m {
		ks = append(ks, k)
	}
	sort.Strings(ks)
	return ks
}

// splitClause evaluates an ensures clause; a clause that is a call of a
// (non-opaque) pure function whose body is a conjunction is split into one
// obligation per conjunct, so a failure names the broken conjunct.
func (ex *Exec) splitClause(fr *Frame, st *State, res []Val, cl Clause) []invConj {
	call, ok := cl.Expr.(*ECall)
	var pf *PureFunc
	if ok {
		pf = ex.db.pures[call.Fn]
	}
	if pf == nil || pf.Opaque || len(call.Args) != len(pf.Params) {
		return []invConj{{cl.Text, ex.evalBool(fr, st, fr.entry, res, cl.Expr)}}
	}
	var parts []Expr
	var split func(e Expr)
	split = func(e Expr) {
		if b, ok := e.(*EBin); ok && b.Op == "&&" {
			split(b.X)
			split(b.Y)
			return
		}
		parts = append(parts, e)
	}
	split(pf.Body)
	if len(parts) == 1 {
		return []invConj{{cl.Text, ex.evalBool(fr, st, fr.entry, res, cl.Expr)}}
	}
	outer := ex.newCtx(fr, st, fr.entry, res)
	c := ex.newCtx(fr, st, fr.entry, res)
	c.env = map[string]TVal{}
	c.lets = map[string]Expr{}
	if p := c.findPkg(pf.Pkg); p != nil {
		c.pkg = p
	}
	for i, p := range pf.Params {
		c.env[p.Name] = outer.coerce(outer.eval(call.Args[i]), c.resolveType(p.Type))
	}
	var out []invConj
	for i, e := range parts {
		out = append(out, invConj{fmt.Sprintf("%s#%d %s", call.Fn, i+1, exprText(e)), c.boolTerm(e)})
	}
	return out
}

func flattenAnd(e Expr) []Expr {
	if b, ok := e.(*EBin); ok && b.Op == "&&" {
		return append(flattenAnd(b.X), flattenAnd(b.Y)...)
	}
	return []Expr{e}
}

// invConjE: like invConj but keeps the expression and how to build an
// evaluation context for it (after looking through pure functions).
type invConjE struct {
	text string
	term string
	expr Expr
	ctx  func(st *State) *evalCtx
}

// splitClauseE is splitClause returning expressions and contexts as well.
func (ex *Exec) splitClauseE(fr *Frame, st *State, res []Val, cl Clause) []invConjE {
	mk := func(env map[string]TVal, pkgName string) func(*State) *evalCtx {
		return func(s *State) *evalCtx {
			c := ex.newCtx(fr, s, fr.entry, res)
			if env != nil {
				c.env = map[string]TVal{}
				for k, v := range env {
					c.env[k] = v
				}
				c.lets = map[string]Expr{}
				if p := c.findPkg(pkgName); p != nil {
					c.pkg = p
				}
			}
			return c
		}
	}
	call, ok := cl.Expr.(*ECall)
	var pf *PureFunc
	if ok {
		pf = ex.db.pures[call.Fn]
	}
	if pf == nil || pf.Opaque || len(call.Args) != len(pf.Params) {
		return []invConjE{{cl.Text, ex.evalBool(fr, st, fr.entry, res, cl.Expr), cl.Expr, mk(nil, "")}}
	}
	parts := flattenAnd(pf.Body)
	if len(parts) == 1 {
		return []invConjE{{cl.Text, ex.evalBool(fr, st, fr.entry, res, cl.Expr), cl.Expr, mk(nil, "")}}
	}
	outer := ex.newCtx(fr, st, fr.entry, res)
	env := map[string]TVal{}
	tc := ex.newCtx(fr, st, fr.entry, res)
	if p := tc.findPkg(pf.Pkg); p != nil {
		tc.pkg = p
	}
	for i, p := range pf.Params {
		env[p.Name] = outer.coerce(outer.eval(call.Args[i]), tc.resolveType(p.Type))
	}
	var out []invConjE
	for i, e := range parts {
		c := mk(env, pf.Pkg)(st)
		out = append(out, invConjE{fmt.Sprintf("%s#%d %s", call.Fn, i+1, exprText(e)), c.boolTerm(e), e, mk(env, pf.Pkg)})
	}
	return out
}

type invConj struct {
	text string
	term string
}

// invConjuncts evaluates the lock invariant (a pure function of the owner
// pointer) and splits it into its top-level conjuncts.
// invConjunctsE: like invConjuncts, keeping expressions and a context builder.
func (ex *Exec) invConjunctsE(fr *Frame, st *State, ld *LockDecl, ref string, owner types.Type) []invConjE {
	pf := ex.db.pures[ld.Inv]
	if pf == nil {
		panic(evalErr{"lock invariant " + ld.Inv + " is not defined"})
	}
	mk := func(s *State) *evalCtx {
		c := ex.newCtx(fr, s, fr.entry, nil)
		c.env = map[string]TVal{pf.Params[0].Name: {V: Sc{ref, SRef}, T: types.NewPointer(owner)}}
		c.lets = map[string]Expr{}
		if p := c.findPkg(pf.Pkg); p != nil {
			c.pkg = p
		}
		return c
	}
	var out []invConjE
	for i, e := range flattenAnd(pf.Body) {
		out = append(out, invConjE{fmt.Sprintf("%s#%d %s", ld.Inv, i+1, exprText(e)), mk(st).boolTerm(e), e, mk})
	}
	return out
}

func (ex *Exec) invConjuncts(fr *Frame, st *State, ld *LockDecl, ref string, owner types.Type) []invConj {
	pf := ex.db.pures[ld.Inv]
	if pf == nil {
		panic(evalErr{"lock invariant " + ld.Inv + " is not defined"})
	}
	var parts []Expr
	var split func(e Expr)
	split = func(e Expr) {
		if b, ok := e.(*EBin); ok && b.Op == "&&" {
			split(b.X)
			split(b.Y)
			return
		}
		parts = append(parts, e)
	}
	split(pf.Body)
	c := ex.newCtx(fr, st, fr.entry, nil)
	c.env = map[string]TVal{pf.Params[0].Name: {V: Sc{ref, SRef}, T: types.NewPointer(owner)}}
	c.lets = map[string]Expr{}
	if p := c.findPkg(pf.Pkg); p != nil {
		c.pkg = p
	}
	var out []invConj
	for i, e := range parts {
		out = append(out, invConj{fmt.Sprintf("%s#%d %s", ld.Inv, i+1, exprText(e)), c.boolTerm(e)})
	}
	return out
}

func (ex *Exec) onUnlock(st *State, fr *Frame, k string, recv Val, pos token.Pos) {
	if top := ex.topFrame; top != nil && top.ct != nil && fr == top && st.lockSnap != nil {
		thisLock := ""
		if p, ok := recv.(*PtrI); ok {
			if ld, _, _ := ex.lockDeclFor(p.A); ld != nil {
				thisLock = ld.Owner + "." + ld.MuField
			}
		}
		for _, cl := range top.ct.UnlockAsserts {
			if want := siteOf(cl.Props); want > 0 && want != unlockOrdinal(top.fn, pos) {
				continue
			}
			skip := false
			for _, p := range cl.Props {
				if strings.HasPrefix(p, "site=lock:") && strings.TrimPrefix(p, "site=lock:") != thisLock {
					skip = true
				}
			}
			if skip {
				continue
			}
			term, ok := func() (t string, ok bool) {
				defer func() {
					if r := recover(); r != nil {
						if e, isEval := r.(evalErr); isEval && strings.Contains(e.msg, "unknown name") {
							// a local the clause mentions is not declared yet at this Unlock()
							ex.vc.Trust("assert_at_unlock clause skipped at an Unlock() that precedes the declaration of a local it mentions: " + cl.Text)
							ok = false
							return
						}
						panic(r)
					}
				}()
				return ex.evalBool(top, st, top.entry, nil, cl.Expr), true
			}()
			if !ok {
				continue
			}
			o := ex.oblige(st, fr, "assert-at-unlock", pos, cl.Text, term)
			if o != nil && len(propsOnly(cl.Props)) > 0 {
				o.Props = propsOnly(cl.Props)
			}
		}
	}
	p, ok := recv.(*PtrI)
	if !ok {
		return
	}
	ld, ownerAddr, ownerT := ex.lockDeclFor(p.A)
	if ld == nil || ld.Inv == "" || len(ownerAddr.Path) != 0 {
		return
	}
	ref := ownerAddr.Ref
	for _, cj := range ex.invConjunctsE(fr, st, ld, ref, ownerT) {
		term := cj.term
		if sk, ok := ex.skolemWithHyps(fr, st, cj); ok {
			term = sk
		}
		ex.oblige(st, fr, "lock-inv("+ld.MuField+")", token.NoPos, cj.text, term)
	}
}

// checkGuardedEscape: a function that returns with the lock released must
// not hand out references to memory the lock guards (the caller would read or
// write it unprotected): every reference in the results differs from the
// references held in the guarded fields of the receiver.
func (ex *Exec) checkGuardedEscape(fr *Frame, out *State, res []Val) {
	if !ex.lockChecks || len(res) == 0 || len(fr.params) == 0 || fr.fn.Signature.Recv() == nil {
		return
	}
	recv, ok := fr.params[0].(Sc)
	if !ok {
		return
	}
	pt, ok := fr.fn.Params[0].Type().Underlying().(*types.Pointer)
	if !ok {
		return
	}
	type resRef struct {
		ref string
		t   types.Type
	}
	var resRefs []resRef
	rt := fr.fn.Signature.Results()
	for i, r := range res {
		switch kindOf(rt.At(i).Type()) {
		case KSlice:
			if a, ok := r.(*Agg); ok {
				resRefs = append(resRefs, resRef{sc(a.F[0]).T, rt.At(i).Type()})
			}
		case KPtr, KMap:
			if s, ok := r.(Sc); ok {
				resRefs = append(resRefs, resRef{s.T, rt.At(i).Type()})
			}
		}
	}
	if len(resRefs) == 0 {
		return
	}
	var visit func(a *Addr, t types.Type, depth int)
	visit = func(a *Addr, t types.Type, depth int) {
		st, ok := t.Underlying().(*types.Struct)
		if !ok || depth > 2 || kindOf(t) != KStruct {
			return
		}
		on := ownerName(t)
		for _, ld := range ex.db.locks {
			if ld.Owner != on {
				continue
			}
			mi := fieldIndex(st, ld.MuField)
			lk := a.ext(PathEl{Field: mi})
			lk2 := *lk
			lk2.Ref = canonTerm(lk.Ref)
			if lockTerm(out, lk2.String()) == "true" {
				continue // still held: the contract says so
			}
			for i := 0; i < st.NumFields(); i++ {
				f := st.Field(i)
				if !ld.Guarded[f.Name()] {
					continue
				}
				var fref string
				v := ex.load(out, a.ext(PathEl{Field: i}))
				ex.validRefs(out, v, f.Type())
				switch kindOf(f.Type()) {
				case KSlice:
					fref = sc(v.(*Agg).F[0]).T
				case KMap, KPtr:
					fref = sc(v).T
				default:
					continue
				}
				for _, rr := range resRefs {
					// Go's type system rules out aliasing between differently typed references
					if !types.Identical(rr.t.Underlying(), f.Type().Underlying()) {
						continue
					}
					ex.oblige(out, fr, "guarded-escape("+f.Name()+")", token.NoPos, "a result aliases the guarded field "+f.Name(), or(eq(rr.ref, z64()), not(eq(rr.ref, fref))))
				}
			}
		}
		for i := 0; i < st.NumFields(); i++ {
			if kindOf(st.Field(i).Type()) == KStruct {
				visit(a.ext(PathEl{Field: i}), st.Field(i).Type(), depth+1)
			}
		}
	}
	visit(&Addr{Kind: AHeap, Root: pt.Elem(), Ref: recv.T, ArrLen: -1}, pt.Elem(), 0)
}

// guardedAccess: every field on the address path that a lock declaration
// lists as guarded requires that lock to be held.
func (ex *Exec) guardedAccess(st *State, fr *Frame, a *Addr, pos token.Pos) {
	if !ex.lockChecks || a.Kind != AHeap || len(a.Path) == 0 || len(ex.db.locks) == 0 {
		return
	}
	top := ex.db.funcs[funcName(ex.top)]
	if top != nil && top.InitCtx {
		return
	}
	if ex.isLocalRef(a.Ref) && !ex.escaped[a.Ref] {
		return // object under construction, not yet visible to other goroutines
	}
	t := a.Root
	for i, el := range a.Path {
		if el.IsIdx {
			return
		}
		stt, ok := t.Underlying().(*types.Struct)
		if !ok {
			return
		}
		on := ownerName(t)
		fname := stt.Field(el.Field).Name()
		for _, ld := range ex.db.locks {
			if ld.Owner != on || !ld.Guarded[fname] {
				continue
			}
			mi := fieldIndex(stt, ld.MuField)
			lk := &Addr{Kind: AHeap, Root: a.Root, Ref: canonTerm(a.Ref), ArrLen: -1, Path: append(append([]PathEl{}, a.Path[:i]...), PathEl{Field: mi})}
			ex.oblige(st, fr, "guarded("+fname+")", pos, "", lockTerm(st, lk.String()))
		}
		t = stt.Field(el.Field).Type()
	}
}

// ---------------------------------------------------------------------------
// assigns

func (ex *Exec) compileAssigns(fr *Frame, st *State, ct *FuncContract) {
	c := ex.newCtx(fr, st, st, nil)
	for _, ap := range ct.Assigns {
		ex.assigns = append(ex.assigns, c.compileAssign(ap.Expr, ap.Text)...)
	}
	ex.assignsOn = true
	ex.assignsAll = ct.AssignsAll
}

// compileAssign turns a location pattern into component prefixes with a root
// reference (evaluated in the pre-state).
func (c *evalCtx) compileAssign(e Expr, text string) []assignPat {
	switch x := e.(type) {
	case *ECall:
		if x.Fn == "guarded" && len(x.Args) == 1 {
			// everything the named mutex guards (whole component families)
			v := c.eval(x.Args[0])
			p, ok := v.V.(*PtrI)
			if !ok {
				c.errf("assigns %s: not a mutex", text)
			}
			ld, ownerAddr, ownerT := c.ex.lockDeclFor(p.A)
			if ld == nil {
				c.errf("assigns %s: no lock declaration for this mutex", text)
			}
			var out []assignPat
			for pre := range c.ex.reachableComps(ownerAddr, ownerT, ld) {
				out = append(out, assignPat{prefix: pre, anyRef: true, isMap: hasPrefix(pre, "Map_"), text: text})
			}
			sort.Slice(out, func(i, j int) bool { return out[i].prefix < out[j].prefix })
			return out
		}
		if x.Fn == "handlefile" && len(x.Args) == 1 {
			// the ghost bytes and length behind an open file handle
			v := c.eval(x.Args[0])
			h, ok := v.V.(Sc)
			if !ok {
				c.errf("assigns %s: not a file handle", text)
			}
			return []assignPat{{prefix: handleBytesKey, ref: h.T, text: text}, {prefix: handleLenKey, ref: h.T, text: text}}
		}
		if x.Fn == "file" && len(x.Args) == 1 {
			// the ghost state of the file of that name (all three components)
			return []assignPat{{prefix: ghostFileKey, ref: z64(), text: text}, {prefix: ghostLenKey, ref: z64(), text: text}, {prefix: ghostExistsKey, ref: z64(), text: text}}
		}
	case *EIdent:
		if strings.HasPrefix(x.Name, "$") {
			return []assignPat{{prefix: "Ghost_" + strings.TrimPrefix(x.Name, "$"), ref: z64(), text: text}}
		}
	case *ESel:
		base := c.eval(x.X)
		pt, ok := base.T.Underlying().(*types.Pointer)
		if !ok {
			c.errf("assigns %s: base is not a pointer", text)
		}
		st := pt.Elem().Underlying().(*types.Struct)
		fi := fieldIndex(st, x.Name)
		if fi < 0 {
			c.errf("assigns %s: no field %s", text, x.Name)
		}
		return []assignPat{{prefix: rootKey(AHeap, pt.Elem()) + "_" + x.Name, ref: sc(base.V).T, text: text}}
	case *EIndex:
		base := c.eval(x.X)
		idx := ""
		var iv TVal
		if x.I != nil {
			iv = c.eval(x.I)
		}
		switch kindOf(base.T) {
		case KMap:
			mt := base.T.Underlying().(*types.Map)
			if x.I != nil {
				idx = sc(c.coerce(iv, mt.Key()).V).T
			}
			return []assignPat{{prefix: "Map_" + typeKey(mt), ref: sc(base.V).T, idx: idx, isMap: true, text: text}}
		case KSlice:
			sv := c.ex.viewSlice(base.V, base.T)
			if x.I != nil {
				idx = app("bvadd", sv.off, c.idx64(iv))
			}
			return []assignPat{{prefix: rootKey(AElems, sv.elemT), ref: sv.ref, idx: idx, text: text}}
		case KPtr:
			at := base.T.Underlying().(*types.Pointer).Elem().Underlying().(*types.Array)
			if x.I != nil {
				idx = c.idx64(iv)
			}
			return []assignPat{{prefix: rootKey(AElems, at.Elem()), ref: sc(base.V).T, idx: idx, text: text}}
		}
	}
	c.errf("unsupported assigns pattern %s", text)
	return nil
}

func addrCompPrefix(a *Addr) string {
	p := rootKey(a.Kind, a.Root)
	t := a.rootValueType()
	if a.Kind == AElems {
		t = a.Root
	}
	path := a.Path
	if a.Kind == AElems && len(path) > 0 {
		path = path[1:]
	}
	for _, el := range path {
		if el.IsIdx {
			if kindOf(t) == KPacked {
				break
			}
			t = t.Underlying().(*types.Array).Elem()
			p += "_el"
		} else {
			f := t.Underlying().(*types.Struct).Field(el.Field)
			p += "_" + f.Name()
			t = f.Type()
		}
	}
	return p
}

func (ex *Exec) checkAssigns(st *State, fr *Frame, a *Addr, pos token.Pos) {
	if a.opaqueOnPath() {
		return // fields of opaque library objects are not verified state
	}
	ex.guardedAccess(st, fr, a, pos)
	if !ex.assignsOn || ex.assignsAll || a.Kind == ACell || a.Kind == AGlobal {
		return
	}
	prefix := addrCompPrefix(a)
	alts := []string{not(sel(ex.curFrameEntryAlloc(), a.Ref))}
	for _, p := range ex.assigns {
		if p.isMap || !(hasPrefix(prefix, p.prefix) || hasPrefix(p.prefix, prefix)) {
			continue
		}
		if p.anyRef {
			alts = append(alts, "true")
			continue
		}
		cond := eq(a.Ref, p.ref)
		if p.idx != "" && a.Kind == AElems && len(a.Path) > 0 {
			cond = and(cond, eq(a.Path[0].Idx, p.idx))
		}
		alts = append(alts, cond)
	}
	ex.oblige(st, fr, "assigns", pos, "", or(alts...))
}

func (ex *Exec) curFrameEntryAlloc() string { return "alloc0" }

func (ex *Exec) checkAssignsMap(st *State, fr *Frame, mt types.Type, m, k string, pos token.Pos) {
	if !ex.assignsOn || ex.assignsAll {
		return
	}
	prefix := "Map_" + typeKey(mt.Underlying())
	alts := []string{not(sel("alloc0", m))}
	for _, p := range ex.assigns {
		if !p.isMap || p.prefix != prefix {
			continue
		}
		if p.anyRef {
			alts = append(alts, "true")
			continue
		}
		cond := eq(m, p.ref)
		if p.idx != "" {
			cond = and(cond, eq(k, p.idx))
		}
		alts = append(alts, cond)
	}
	ex.oblige(st, fr, "assigns", pos, "", or(alts...))
}

// ---------------------------------------------------------------------------
// modular calls

func (ex *Exec) callModular(st *State, fr *Frame, callee *ssa.Function, ct *FuncContract, args []Val, pos token.Pos) Val {
	cf := &Frame{fn: callee, regs: map[ssa.Value]Val{}, params: args, ct: ct, depth: fr.depth + 1, parent: fr}
	for _, a := range args {
		ex.markEscapedAny(a)
	}
	pre := st.clone()
	cf.entry = pre
	for i, rq := range ct.Requires {
		t := ex.evalBool(cf, st, pre, nil, rq.Expr)
		o := ex.oblige(st, fr, fmt.Sprintf("pre(%s#%d)", funcName(callee), i+1), pos, rq.Text, t)
		_ = o
	}
	// frame
	if !ct.HasAssigns || ct.AssignsAll {
		ex.havocAllHeap(st, funcName(callee))
	} else {
		c := ex.newCtx(cf, pre, pre, nil)
		for _, ap := range ct.Assigns {
			for _, p := range c.compileAssign(ap.Expr, ap.Text) {
				ex.havocPattern(st, fr, p, pos)
			}
		}
	}
	var res []Val
	rt := callee.Signature.Results()
	for i := 0; i < rt.Len(); i++ {
		v := ex.freshVal(rt.At(i).Type(), "r_"+callee.Name())
		// the callee may have allocated what it returns: the result references
		// are allocated afterwards (whether or not they were before)
		for _, l := range leavesOf(v) {
			if l.S == SRef {
				st.alloc = ex.vc.Bind("alloc", ArrS(SRef, SBool), ite(eq(l.T, z64()), st.alloc, sto(st.alloc, l.T, "true")))
			}
		}
		res = append(res, v)
	}
	for _, en := range ct.Ensures {
		if hasProp(en.Props, "private") {
			// proved for the callee, deliberately not handed to callers (keeps
			// quantified layout facts out of their queries)
			continue
		}
		// post-conditions that talk about the callee's own locals or about the
		// state at its Lock() are internal to its proof: a caller learns nothing
		// from them (not assuming a clause is sound)
		t, ok := func() (t string, ok bool) {
			defer func() {
				if r := recover(); r != nil {
					if e, isEval := r.(evalErr); isEval && (strings.Contains(e.msg, "unknown name") || strings.Contains(e.msg, "atlock()")) {
						ok = false
						return
					}
					panic(r)
				}
			}()
			return ex.evalBool(cf, st, pre, res, en.Expr), true
		}()
		if ok {
			ex.assume(st, t)
		}
	}
	ex.usedContracts[funcName(callee)] = true
	return packResults(res)
}

func (ex *Exec) havocPattern(st *State, fr *Frame, p assignPat, pos token.Pos) {
	if p.anyRef {
		if ex.assignsOn && !ex.assignsAll {
			okc := "false"
			for _, q := range ex.assigns {
				if q.anyRef && hasPrefix(p.prefix, q.prefix) {
					okc = "true"
				}
			}
			ex.oblige(st, fr, "assigns", pos, "callee may write "+p.text+" ("+p.prefix+")", okc)
		}
		pre := map[string]bool{p.prefix: true}
		ex.epochs++
		ex.epochInfo[ex.epochs] = epochInfo{parent: st.epoch, prefixes: pre}
		st.epoch = ex.epochs
		ex.havocComps(st, pre)
		return
	}
	// the caller must itself be allowed to write what the callee may write
	if ex.assignsOn && !ex.assignsAll {
		ok := []string{not(sel("alloc0", p.ref))}
		for _, q := range ex.assigns {
			if q.isMap == p.isMap && (hasPrefix(p.prefix, q.prefix) || hasPrefix(q.prefix, p.prefix)) {
				cond := eq(p.ref, q.ref)
				if q.idx != "" {
					if p.idx == "" {
						continue
					}
					cond = and(cond, eq(p.idx, q.idx))
				}
				ok = append(ok, cond)
			}
		}
		ex.oblige(st, fr, "assigns", pos, "callee may write "+p.text, or(ok...))
	}
	for _, key := range sortedCompKeys(ex.comps) {
		if !hasPrefix(key, p.prefix) {
			continue
		}
		ci := ex.comps[key]
		cur := ex.comp(st, key, ci.sort)
		_, inner := ci.sort.ArrParts()
		if p.idx == "" || !inner.IsArr() {
			st.heap[key] = ex.vc.Bind("h_"+key, ci.sort, sto(cur, p.ref, ex.vc.Fresh("hv_"+key, inner)))
		} else {
			_, el := inner.ArrParts()
			st.heap[key] = ex.vc.Bind("h_"+key, ci.sort, sto(cur, p.ref, sto(sel(cur, p.ref), p.idx, ex.vc.Fresh("hv_"+key, el))))
		}
	}
	// components under the prefix that do not exist yet: later lazily created
	// in this state they must not resolve to the pre-call constant
	ex.epochs++
	ex.epochInfo[ex.epochs] = epochInfo{parent: st.epoch, prefixes: map[string]bool{p.prefix: true}}
	st.epoch = ex.epochs
}

// ---------------------------------------------------------------------------
// lemmas

// applyLemma instantiates a lemma (proved as its own obligation) at explicit
// arguments evaluated in context c and returns the instance.
func (ex *Exec) applyLemma(fr *Frame, st *State, c *evalCtx, ap Expr, where string) string {
	call, ok := ap.(*ECall)
	if !ok {
		panic(evalErr{"apply expects LEMMA(args)"})
	}
	var other *Lemma
	for _, o := range ex.db.lemmas {
		if o.Name == call.Fn {
			other = o
		}
	}
	if other == nil {
		panic(evalErr{"apply: unknown lemma " + call.Fn})
	}
	q, ok := other.Body.(*EQuant)
	if !ok || len(q.Vars) != len(call.Args) {
		panic(evalErr{"apply " + call.Fn + ": argument count does not match the lemma's quantified variables"})
	}
	oc := ex.newCtx(fr, st, st, nil)
	oc.env = map[string]TVal{}
	oc.lets = map[string]Expr{}
	if p := oc.findPkg(other.Pkg); p != nil {
		oc.pkg = p
	}
	for i, qv := range q.Vars {
		oc.env[qv.Name] = c.coerce(c.eval(call.Args[i]), oc.resolveType(qv.Type))
	}
	ex.vc.Trust("lemma " + other.Name + " (proved as its own obligation) applied in " + where)
	ex.usedLemmas[other.Name] = true
	return oc.boolTerm(q.Body)
}

// VerifyLemma checks a closed lemma. A top-level forall is skolemised so the
// query is quantifier free.
func VerifyLemma(ld *Loader, db *ContractDB, lm *Lemma, anyFn *ssa.Function) (vc *VC, err error) {
	ex := newExec(ld, db, anyFn)
	ex.vc.Func = lm.Pkg + ".lemma:" + lm.Name
	ex.props = lm.Props
	ex.noSafety = true
	defer func() {
		if r := recover(); r != nil {
			switch e := r.(type) {
			case unsupportedErr:
				err = fmt.Errorf("unsupported: %s", e.msg)
			case evalErr:
				err = fmt.Errorf("contract error: %s", e.msg)
			default:
				panic(r)
			}
			vc = ex.vc
		}
	}()
	st := &State{guard: "true", cells: map[*ssa.Alloc]Val{}, globs: map[*ssa.Global]Val{}, heap: map[string]string{}, locks: map[string]string{}, ghost: map[string]Val{}}
	ex.vc.DeclareOnce("alloc0", ArrS(SRef, SBool))
	st.alloc = "alloc0"
	fr := &Frame{fn: anyFn, regs: map[ssa.Value]Val{}}
	fr.entry = st
	c := ex.newCtx(fr, st, st, nil)
	c.env = map[string]TVal{}
	c.lets = map[string]Expr{}
	if p := c.findPkg(lm.Pkg); p != nil {
		c.pkg = p
	}
	body := lm.Body
	for {
		q, ok := body.(*EQuant)
		if !ok || !q.Forall {
			break
		}
		for _, qv := range q.Vars {
			t := c.resolveType(qv.Type)
			v := mkVal(t, "sk_"+qv.Name, nil, func(path string, s Sort) string {
				n := sanitize(path)
				ex.vc.DeclareOnce(n, s)
				ex.vc.inputs = append(ex.vc.inputs, namedTerm{path, n, s})
				return n
			})
			ex.typeInv(nil, v, t)
			c.env[qv.Name] = TVal{V: v, T: t}
		}
		body = q.Body
	}
	for _, u := range lm.Uses {
		if strings.HasPrefix(u, "reveal:") {
			ex.revealed[strings.TrimPrefix(u, "reveal:")] = true
		}
	}
	// lemma applications: instantiate another lemma's body at explicit arguments
	for _, ap := range lm.Applies {
		ex.vc.Assume(ex.applyLemma(fr, st, c, ap, "lemma "+lm.Name))
	}
	for _, u := range lm.Uses {
		if ax, ok := axioms[u]; ok {
			ex.vc.Assume(ax)
			ex.vc.Trust("axiom " + u)
		}
		for _, other := range db.lemmas {
			if other.Name == u && other != lm {
				// a lemma proved separately may be used as a (quantified) hypothesis
				oc := ex.newCtx(fr, st, st, nil)
				oc.env = map[string]TVal{}
				oc.lets = map[string]Expr{}
				if p := oc.findPkg(other.Pkg); p != nil {
					oc.pkg = p
				}
				ex.vc.Assume(oc.boolTerm(other.Body))
			}
		}
	}
	goal := c.boolTerm(body)
	ex.oblige(st, fr, "lemma", token.NoPos, lm.Name+": "+lm.Text, goal)
	return ex.vc, nil
}

var axioms = map[string]string{
	// X2: a signature binds one message
	"X2": "(forall ((k (_ BitVec 256)) (m1 (_ BitVec 64)) (m2 (_ BitVec 64)) (s (_ BitVec 512))) (=> (and (Verify k m1 s) (Verify k m2 s)) (= m1 m2)))",
	// X3: the all-zero key verifies nothing
	"X3": "(forall ((m (_ BitVec 64)) (s (_ BitVec 512))) (not (Verify #x0000000000000000000000000000000000000000000000000000000000000000 m s)))",
}

func exprText(e Expr) string {
	switch x := e.(type) {
	case *EIdent:
		return x.Name
	case *EInt:
		return x.V.String()
	case *EStr:
		return fmt.Sprintf("%q", x.S)
	case *ESel:
		return exprText(x.X) + "." + x.Name
	case *EIndex:
		if x.I == nil {
			return exprText(x.X) + "[*]"
		}
		return exprText(x.X) + "[" + exprText(x.I) + "]"
	case *EUn:
		return x.Op + exprText(x.X)
	case *EBin:
		return "(" + exprText(x.X) + " " + x.Op + " " + exprText(x.Y) + ")"
	case *ECond:
		return "(" + exprText(x.C) + " ? " + exprText(x.A) + " : " + exprText(x.B) + ")"
	case *EQuant:
		var vs []string
		for _, v := range x.Vars {
			vs = append(vs, v.Name+" "+v.Type.Text)
		}
		q := "forall"
		if !x.Forall {
			q = "exists"
		}
		return q + " " + strings.Join(vs, ", ") + " :: " + exprText(x.Body)
	case *ECall:
		var as []string
		for _, a := range x.Args {
			as = append(as, exprText(a))
		}
		for _, a := range x.Named {
			as = append(as, a.Name+": "+exprText(a.E))
		}
		return x.Fn + "(" + strings.Join(as, ", ") + ")"
	}
	return "?"
}

// checkGhostAssign: a library model is about to change ghost state (a file's
// content, the bytes behind a handle, the datagram log); under an assigns
// clause the component has to be listed.
func (ex *Exec) checkGhostAssign(st *State, key, ref, what string, pos token.Pos) {
	if !ex.assignsOn || ex.assignsAll {
		return
	}
	alts := []string{}
	for _, p := range ex.assigns {
		if p.prefix != key && !hasPrefix(key, p.prefix) {
			continue
		}
		if p.anyRef {
			alts = append(alts, "true")
			continue
		}
		alts = append(alts, eq(ref, p.ref))
	}
	goal := "false"
	if len(alts) > 0 {
		goal = or(alts...)
	}
	ex.oblige(st, ex.curFrame, "assigns", pos, what+" is modified but not listed in assigns", goal)
}
