package main

// Models of library functions (the external contract library of DESIGN §3.4).
// Every entry is an assumption and is listed in the evidence when used.

import (
	"fmt"
	"go/token"
	"go/types"
	"strings"

	"golang.org/x/tools/go/ssa"
)

type intrinsic func(ex *Exec, st *State, fr *Frame, callee *ssa.Function, args []Val, c *ssa.CallCommon, pos token.Pos) Val

var intrinsics map[string]intrinsic
var externalModels map[string]intrinsic
var invokeModels map[string]intrinsic
var intrinsicWrites map[string]func(c *ssa.CallCommon, ws *writeSet)

// pureCallees have no effect on the heap the verified code can see.
var pureCallees = map[string]bool{}

const tgPath = "github.com/glowlabs-org/threadgroup"
const glowPath = modulePath + "/glow"

func noEffect(ex *Exec, st *State, fr *Frame, callee *ssa.Function, args []Val, c *ssa.CallCommon, pos token.Pos) Val {
	return ex.freshResults(st, c.Signature().Results(), "r")
}

func freshError(ex *Exec, st *State, fr *Frame, callee *ssa.Function, args []Val, c *ssa.CallCommon, pos token.Pos) Val {
	e := ex.vc.Fresh("err", SRef)
	ex.vc.Assume(not(eq(e, z64())))
	return Sc{e, SRef}
}

func freshString(ex *Exec, st *State, fr *Frame, callee *ssa.Function, args []Val, c *ssa.CallCommon, pos token.Pos) Val {
	return ex.freshVal(types.Typ[types.String], "str")
}

// lockKey names a mutex by the structured address of the sync.Mutex value.
func lockKey(v Val) (string, bool) {
	switch p := v.(type) {
	case *PtrI:
		if canonTerm != nil && p.A.Ref != "" {
			a := *p.A
			a.Ref = canonTerm(a.Ref)
			return a.String(), true
		}
		return p.A.String(), true
	case Sc:
		return "mutex@" + p.T, true
	}
	return "", false
}

// canonTerm resolves bound names to their defining terms so that two loads of
// the same pointer denote the same mutex (set per verification run).
var canonTerm func(string) string

func init() {
	intrinsics = map[string]intrinsic{
		"(*sync.Mutex).Lock":      lockIntrinsic,
		"(*sync.Mutex).Unlock":    unlockIntrinsic,
		"(*sync.RWMutex).Lock":    lockIntrinsic,
		"(*sync.RWMutex).Unlock":  unlockIntrinsic,
		"(*sync.RWMutex).RLock":   lockIntrinsic,
		"(*sync.RWMutex).RUnlock": unlockIntrinsic,
		"fmt.Errorf":              freshError,
		"errors.New":              freshError,
		"fmt.Sprintf":             freshString,
		"fmt.Sprint":              freshString,
		"fmt.Sprintln":            freshString,
		"fmt.Printf":              noEffect,
		"fmt.Println":             noEffect,
		"fmt.Print":               noEffect,
		"fmt.Fprintf":             noEffect,
		"fmt.Fprintln":            noEffect,
		"strconv.Itoa":            freshString,
		"os.IsNotExist":           fsIsNotExist,
		"path/filepath.Join":      pathJoin,
		"path.Join":               pathJoin,
		"math.Float64bits":        float64bits,
		"math.Float64frombits":    float64frombits,
		"math.IsNaN": func(ex *Exec, st *State, fr *Frame, callee *ssa.Function, args []Val, c *ssa.CallCommon, pos token.Pos) Val {
			return Sc{app("fp.isNaN", sc(args[0]).T), SBool}
		},
		"math.IsInf": func(ex *Exec, st *State, fr *Frame, callee *ssa.Function, args []Val, c *ssa.CallCommon, pos token.Pos) Val {
			return Sc{ex.vc.Fresh("isinf", SBool), SBool}
		},
		"time.Now":                    timeNow,
		"(time.Time).Add":             timeAdd,
		"(time.Time).After":           timeCmp("bvsgt"),
		"(time.Time).Before":          timeCmp("bvslt"),
		"(time.Time).Equal":           timeCmp("="),
		"(time.Time).Unix":            timeUnix,
		"(time.Time).Sub":             timeSub,
		"time.Since":                  noEffect,
		"time.Sleep":                  noEffect,
		"(time.Duration).Seconds":     noEffect,
		glowPath + ".Verify":          verifyIntrinsic,
		glowPath + ".Sign":            signIntrinsic,
		glowPath + ".GenerateKeyPair": noEffect,
		"sync/atomic.LoadUint32": func(ex *Exec, st *State, fr *Frame, callee *ssa.Function, args []Val, c *ssa.CallCommon, pos token.Pos) Val {
			a := ex.derefAddr(st, fr, args[0], c.Args[0].Type(), pos, "")
			return ex.load(st, a)
		},
		"sync/atomic.StoreUint32": func(ex *Exec, st *State, fr *Frame, callee *ssa.Function, args []Val, c *ssa.CallCommon, pos token.Pos) Val {
			a := ex.derefAddr(st, fr, args[0], c.Args[0].Type(), pos, "")
			ex.store(st, a, args[1])
			return nil
		},
		"(*" + tgPath + ".ThreadGroup).Launch":    tgNoop,
		"(*" + tgPath + ".ThreadGroup).OnStop":    tgNoop,
		"(*" + tgPath + ".ThreadGroup).AfterStop": tgNoop,
		"(*" + tgPath + ".ThreadGroup).IsStopped": noEffect,
		"(*" + tgPath + ".ThreadGroup).Sleep":     tgSleep,
		"(*" + tgPath + ".ThreadGroup).Stop":      noEffect,
		"(*" + tgPath + ".ThreadGroup).StopChan":  noEffect,
		"bytes.Equal":                             bytesEqual,
		"io.ReadFull":                             ioReadFull,
		"encoding/binary.Read":                    binaryRead,
		"encoding/binary.Write":                   noEffect,
		"(*os.File).Write":                        fsFileWrite,
		"(*os.File).WriteAt":                      fsWriteAt,
		"(*os.File).ReadAt":                       fsReadAt,
		"(*os.File).Close":                        fsClose,
		glowPath + ".SendUDPReport":               sendUDPReport,
		"(*" + modulePath + "/server.zipArchiveWriter).AddFile": arcAddFile,
		"(*os.File).WriteString":                  fsWrite,
		"os.WriteFile":                            fsWriteFile,
		"io/ioutil.WriteFile":                     fsWriteFile,
		"os.Create":                               fsCreate,
		"os.OpenFile":                             fsOpen,
		"os.MkdirAll":                             fsWrite,
		"os.Remove":                               fsWrite,
		"os.Rename":                               fsWrite,
		"sort.Slice":                              sortSlice,
		"bytes.NewReader":                         bytesNewReader,
		"bufio.NewScanner":                        bufioNewScanner,
		"(*bufio.Scanner).Scan":                   scannerScan,
		"(*bufio.Scanner).Text":                   scannerText,
	}
	externalModels = map[string]intrinsic{
		"os.Open":                            fsOpenRO,
		"os.Stat":                            valOrErr,
		"(*os.File).Stat":                    valOrErr,
		"net.Dial":                           valOrErr,
		"net.DialTimeout":                    valOrErr,
		"net.Listen":                         valOrErr,
		"net.ListenUDP":                      valOrErr,
		"net/http.NewRequest":                valOrErr,
		"(*archive/zip.Writer).CreateHeader": valOrErr,
		"(*archive/zip.Writer).Create":       valOrErr,
		"(*encoding/csv.Reader).Read":        csvRead,
		"strconv.ParseInt":                   parseIntModel,
		"strconv.ParseFloat":                 parseFloatModel,
		"os.ReadFile":                        fsReadFile,
		"io/ioutil.ReadFile":                 fsReadFile,
		"crypto/rand.Int":                    randInt,
		"math/big.NewInt":                    bigNewInt,
		"(*math/big.Int).Int64":              bigInt64,
		"net/http.Post":                      httpRespErr,
		"net/http.Get":                       httpRespErr,
		"(*net/http.Client).Do":              httpRespErr,
		"(*net/http.Client).Get":             httpRespErr,
	}
	invokeModels = map[string]intrinsic{
		"(error).Error":              freshString,
		"(net.Listener).Accept":      valOrErr,
		"(net.Conn).SetDeadline":     connSetDeadline,
		"(net.Conn).SetReadDeadline": connSetDeadline,
		"(net.Conn).Read":            connRead,
	}
	intrinsicWrites = map[string]func(c *ssa.CallCommon, ws *writeSet){
		"sync/atomic.StoreUint32": func(c *ssa.CallCommon, ws *writeSet) { ws.all = true },
		"(*sync.Mutex).Lock":      func(c *ssa.CallCommon, ws *writeSet) { ws.all = true },
		"sort.Slice": func(c *ssa.CallCommon, ws *writeSet) {
			ws.all = true
		},
	}
	for k := range intrinsics {
		pureCallees[k] = false
	}
}

func tgNoop(ex *Exec, st *State, fr *Frame, callee *ssa.Function, args []Val, c *ssa.CallCommon, pos token.Pos) Val {
	ex.abstracted["threadgroup."+callee.Name()+" in "+funcName(fr.fn)+": closure not executed here (verified separately if under contract)"] = true
	return ex.freshResults(st, c.Signature().Results(), "tg")
}

func tgSleep(ex *Exec, st *State, fr *Frame, callee *ssa.Function, args []Val, c *ssa.CallCommon, pos token.Pos) Val {
	ex.blockingCall(st, fr, "tg.Sleep", pos)
	return ex.freshResults(st, c.Signature().Results(), "tgsleep")
}

// blockingCall: no blocking call while a lock is held (kind noblock-under-lock).
func (ex *Exec) blockingCall(st *State, fr *Frame, what string, pos token.Pos) {
	if !ex.lockChecks {
		return
	}
	var held []string
	for k := range st.locks {
		held = append(held, lockTerm(st, k))
	}
	if len(held) > 0 {
		ex.oblige(st, fr, "noblock-under-lock", pos, "", not(or(held...)))
	}
}

func lockIntrinsic(ex *Exec, st *State, fr *Frame, callee *ssa.Function, args []Val, c *ssa.CallCommon, pos token.Pos) Val {
	k, ok := lockKey(args[0])
	if !ok {
		ex.unsupportedf("lock on unsupported mutex value")
	}
	if ex.lockChecks {
		// no stacking: nothing may be held when a lock is taken (server rule);
		// for the same mutex this is also the self-deadlock check.
		var held []string
		for k2 := range st.locks {
			if ex.lockOrderOK(k2, k) {
				continue
			}
			held = append(held, lockTerm(st, k2))
		}
		if len(held) > 0 {
			ex.oblige(st, fr, "lock-nostack", pos, "", not(or(held...)))
		}
	}
	// while this goroutine waited for the lock, others may have read the clock
	{
		s64 := ArrS(SRef, BV(64))
		cur := ex.comp(st, "Ghost_clock", s64)
		nc := ex.vc.Fresh("clock", BV(64))
		ex.assume(st, app("bvsle", sel(cur, z64()), nc))
		ex.setComp(st, "Ghost_clock", s64, sto(cur, z64(), nc))
	}
	ex.onLock(st, fr, k, args[0], pos)
	st.locks[k] = "true"
	return nil
}

func unlockIntrinsic(ex *Exec, st *State, fr *Frame, callee *ssa.Function, args []Val, c *ssa.CallCommon, pos token.Pos) Val {
	k, ok := lockKey(args[0])
	if !ok {
		ex.unsupportedf("unlock on unsupported mutex value")
	}
	if ex.lockChecks {
		ex.oblige(st, fr, "lock-balance", pos, "unlock of "+shortLock(k), lockTerm(st, k))
	}
	ex.onUnlock(st, fr, k, args[0], pos)
	st.locks[k] = "false"
	return nil
}

func shortLock(k string) string {
	// heap(server_GCAServer@server).17 -> keep readable
	return k
}

// lockOrderOK: holding `held` while acquiring `acq` is permitted (client
// rule: c.mu -> EventLogger.mu).
func (ex *Exec) lockOrderOK(held, acq string) bool {
	if held == acq {
		return false
	}
	for _, p := range ex.db.lockOrder {
		if strings.Contains(held, p[0]) && strings.Contains(acq, p[1]) {
			return true
		}
	}
	return false
}

func float64bits(ex *Exec, st *State, fr *Frame, callee *ssa.Function, args []Val, c *ssa.CallCommon, pos token.Pos) Val {
	return Sc{ex.f64bits(sc(args[0]).T), BV(64)}
}

func float64frombits(ex *Exec, st *State, fr *Frame, callee *ssa.Function, args []Val, c *ssa.CallCommon, pos token.Pos) Val {
	return Sc{app("(_ to_fp 11 53)", sc(args[0]).T), SFP}
}

// time: an instant is an abstract signed 64-bit count; only differences and
// comparisons matter. No overflow is assumed (A7).
func timeNow(ex *Exec, st *State, fr *Frame, callee *ssa.Function, args []Val, c *ssa.CallCommon, pos token.Pos) Val {
	t := ex.vc.Fresh("now", BV(64))
	// ghost $clock: the latest clock reading any goroutine has observed
	ex.assume(st, app("bvsle", ex.ghostComp(st, "$clock"), t))
	s64 := ArrS(SRef, BV(64))
	ex.setComp(st, "Ghost_clock", s64, sto(ex.comp(st, "Ghost_clock", s64), z64(), t))
	// instants are within +-2^62 so that adding a duration does not wrap (A7)
	ex.assume(st, and(app("bvsle", bvLit(new(bigInt).Neg(new(bigInt).Lsh(bigOne, 61)), 64), t), app("bvsle", t, bvLit(new(bigInt).Lsh(bigOne, 61), 64))))
	ex.vc.Trust("A7: time.Now is non-decreasing; instants are abstract 64-bit counts without overflow")
	return Sc{t, BV(64)}
}

func timeAdd(ex *Exec, st *State, fr *Frame, callee *ssa.Function, args []Val, c *ssa.CallCommon, pos token.Pos) Val {
	return Sc{app("bvadd", sc(args[0]).T, sc(args[1]).T), BV(64)}
}

func timeSub(ex *Exec, st *State, fr *Frame, callee *ssa.Function, args []Val, c *ssa.CallCommon, pos token.Pos) Val {
	return Sc{app("bvsub", sc(args[0]).T, sc(args[1]).T), BV(64)}
}

func timeCmp(op string) intrinsic {
	return func(ex *Exec, st *State, fr *Frame, callee *ssa.Function, args []Val, c *ssa.CallCommon, pos token.Pos) Val {
		return Sc{app(op, sc(args[0]).T, sc(args[1]).T), SBool}
	}
}

func timeUnix(ex *Exec, st *State, fr *Frame, callee *ssa.Function, args []Val, c *ssa.CallCommon, pos token.Pos) Val {
	ex.vc.DeclareFun("TimeUnix", []Sort{BV(64)}, BV(64))
	return Sc{app("TimeUnix", sc(args[0]).T), BV(64)}
}

// msgId: identity of a byte sequence of constant length given as a packed
// vector: an uninterpreted function per length (equal content => equal id).
func (ex *Exec) msgId(packed Sc) string {
	n := packed.S.Width() / 8
	fn := fmt.Sprintf("MsgK_%d", n)
	ex.vc.DeclareFun(fn, []Sort{packed.S}, BV(64))
	return app(fn, packed.T)
}

// ghostComp: ghost counters live in the heap as components indexed at ref 0,
// so that assigns clauses and havoc treat them like any other location.
func (ex *Exec) ghostComp(st *State, name string) string {
	key := "Ghost_" + strings.TrimPrefix(name, "$")
	return sel(ex.comp(st, key, ArrS(SRef, BV(64))), z64())
}

func (ex *Exec) ghostBump(st *State, name string) {
	key := "Ghost_" + strings.TrimPrefix(name, "$")
	if ex.assignsOn && !ex.assignsAll {
		listed := false
		for _, p := range ex.assigns {
			if p.prefix == key {
				listed = true
			}
		}
		if !listed {
			ex.oblige(st, ex.curFrame, "assigns", token.NoPos, "ghost "+name+" is modified but not listed in assigns", "false")
		}
	}
	s := ArrS(SRef, BV(64))
	cur := ex.comp(st, key, s)
	ex.setComp(st, key, s, sto(cur, z64(), app("bvadd", sel(cur, z64()), bvInt(1, 64))))
}

// bytesId gives the abstract identity of a byte sequence (content and length).
func (ex *Exec) bytesId(st *State, v Val, t types.Type) string {
	sv := ex.viewSlice(v, t)
	if n, ok := constBV(sv.ln); ok && n > 0 && n <= 160 {
		parts := make([]string, 0, n)
		for i := int64(n) - 1; i >= 0; i-- {
			parts = append(parts, sc(ex.load(st, sv.elemAddr(bvInt(i, 64)))).T)
		}
		t := parts[0]
		if len(parts) > 1 {
			t = "(concat " + strings.Join(parts, " ") + ")"
		}
		return ex.msgId(Sc{ex.vc.Bind("msgbytes", BV(8*int(n)), t), BV(8 * int(n))})
	}
	if sv.root {
		m := sc(ex.heapTree(st, AElems, sv.elemT)).T
		return app("BytesId", sel(m, sv.ref), sv.off, sv.ln)
	}
	// interior: materialise as array
	ex.unsupportedf("byte identity of interior slice")
	return ""
}

func verifyIntrinsic(ex *Exec, st *State, fr *Frame, callee *ssa.Function, args []Val, c *ssa.CallCommon, pos token.Pos) Val {
	ex.vc.Trust("A4: glow.Verify is a pure total function of (key, message bytes, signature) (cryptography not verified)")
	id := ex.bytesId(st, args[1], c.Args[1].Type())
	return Sc{ex.vc.Bind("verify", SBool, app("Verify", sc(args[0]).T, id, sc(args[2]).T)), SBool}
}

func signIntrinsic(ex *Exec, st *State, fr *Frame, callee *ssa.Function, args []Val, c *ssa.CallCommon, pos token.Pos) Val {
	ex.vc.Trust("A4: glow.Sign is a pure deterministic function of (message bytes, private key) (cryptography not verified)")
	id := ex.bytesId(st, args[0], c.Args[0].Type())
	return Sc{ex.vc.Bind("sig", BV(512), app("SignF", id, sc(args[1]).T)), BV(512)}
}

func bytesEqual(ex *Exec, st *State, fr *Frame, callee *ssa.Function, args []Val, c *ssa.CallCommon, pos token.Pos) Val {
	a := ex.bytesId(st, args[0], c.Args[0].Type())
	b := ex.bytesId(st, args[1], c.Args[1].Type())
	ex.vc.Trust("bytes.Equal compares content and length (BytesId extensionality)")
	return Sc{eq(a, b), SBool}
}

// sort.Slice: the slice content becomes a permutation ordered by less. Only
// "length unchanged, elements drawn from the old content" is modelled.
func sortSlice(ex *Exec, st *State, fr *Frame, callee *ssa.Function, args []Val, c *ssa.CallCommon, pos token.Pos) Val {
	ex.vc.Trust("sort.Slice: permutes the slice in place; the closure is assumed not to panic on valid indices")
	ex.abstracted["sort.Slice less-closure in "+funcName(fr.fn)+" not executed"] = true
	// recover the slice from the interface payload
	h := sc(args[0]).T
	rec, ok := ex.ifacePayload[h]
	if !ok {
		ex.havocAllHeap(st, "sort.Slice")
		return nil
	}
	sl, ok := rec.v.(*Agg)
	if !ok {
		ex.havocAllHeap(st, "sort.Slice")
		return nil
	}
	el := rec.t.Underlying().(*types.Slice).Elem()
	sv := ex.viewSlice(sl, rec.t)
	// the less closure: when it is under contract with a functional
	// post-condition "result == E(i, j)", its precondition is an obligation for
	// all index pairs before the sort and "no later element is less than an
	// earlier one" is assumed after it (the documented result of sort.Slice)
	var lessFr *Frame
	var lessE Expr
	var lessSlice string
	if len(args) > 1 {
		if clo, ok := args[1].(*Clo); ok && ex.db != nil {
			if ct := ex.db.funcs[funcName(clo.Fn)]; ct != nil && len(clo.Fn.Params) == 2 {
				for _, en := range ct.Ensures {
					if b, ok := en.Expr.(*EBin); ok && b.Op == "==" {
						if id, ok := b.X.(*EIdent); ok && id.Name == "result" {
							lessE = b.Y
						}
					}
				}
				for _, fv := range clo.Fn.FreeVars {
					if pt, ok := fv.Type().Underlying().(*types.Pointer); ok && types.Identical(pt.Elem(), rec.t) {
						lessSlice = fv.Name()
					}
				}
				if lessE != nil && lessSlice != "" {
					lessFr = &Frame{fn: clo.Fn, regs: map[ssa.Value]Val{}, depth: fr.depth + 1, parent: fr, callPos: pos, ct: ct}
					for i, fv := range clo.Fn.FreeVars {
						if i < len(clo.Binds) {
							lessFr.regs[fv] = clo.Binds[i]
						}
					}
					pi, pj := clo.Fn.Params[0].Name(), clo.Fn.Params[1].Name()
					var reqs []string
					for _, rq := range ct.Requires {
						reqs = append(reqs, "("+rq.Text+")")
					}
					if len(reqs) > 0 {
						src := fmt.Sprintf("forall %s int, %s int :: 0 <= %s && %s < len(%s) && 0 <= %s && %s < len(%s) ==> %s", pi, pj, pi, pi, lessSlice, pj, pj, lessSlice, strings.Join(reqs, " && "))
						if qe, err := parseExpr(src); err == nil {
							g := ex.evalBool(lessFr, st, st, nil, qe)
							ex.oblige(st, fr, "pre("+funcName(clo.Fn)+")", pos, "sort.Slice less: "+strings.Join(reqs, " && "), g)
						} else {
							ex.unsupportedf("sort.Slice: cannot build the closure precondition: %v", err)
						}
					}
					ex.usedContracts[funcName(clo.Fn)] = true
				}
			}
		}
	}
	defer func() {
		if lessFr == nil {
			return
		}
		pi, pj := lessFr.fn.Params[0].Name(), lessFr.fn.Params[1].Name()
		src := fmt.Sprintf("forall %s int, %s int {%s[%s], %s[%s]} :: 0 <= %s && %s < %s && %s < len(%s) ==> !(%s)", pi, pj, lessSlice, pi, lessSlice, pj, pj, pj, pi, pi, lessSlice, exprText(lessE))
		qe, err := parseExpr(src)
		if err != nil {
			ex.unsupportedf("sort.Slice: cannot build the order fact: %v", err)
			return
		}
		ex.assume(st, ex.evalBool(lessFr, st, st, nil, qe))
		ex.vc.Trust("sort.Slice: afterwards no element is less (by the closure's proved specification) than an element before it")
	}()
	tree := ex.heapTree(st, AElems, el)
	// permutation: new[i] = old[perm(i)] with perm mapping [0,len) into [0,len)
	ex.vc.n++
	perm := fmt.Sprintf("perm_%d", ex.vc.n)
	ex.vc.Raw(fmt.Sprintf("(declare-fun %s ((_ BitVec 64)) (_ BitVec 64))", perm))
	ex.assume(st, fmt.Sprintf("(forall ((qi (_ BitVec 64))) (! (=> (bvult qi %s) (bvult (%s qi) %s)) :pattern ((%s qi))))", sv.ln, perm, sv.ln, perm))
	// a permutation is injective
	ex.assume(st, fmt.Sprintf("(forall ((qi (_ BitVec 64)) (qj (_ BitVec 64))) (! (=> (and (bvult qi %s) (bvult qj %s) (not (= qi qj))) (not (= (%s qi) (%s qj)))) :pattern ((%s qi) (%s qj))))", sv.ln, sv.ln, perm, perm, perm, perm))
	nt := leafMap(tree, func(l Sc) Sc {
		_, inner := l.S.ArrParts()
		old := sel(l.T, sv.ref)
		na := ex.vc.Fresh("sorted", inner)
		// absolute index q: inside [off, off+len) the element comes from position
		// off + perm(q - off) of the old content, outside nothing changes
		rel := app("bvsub", "qi", sv.off)
		inside := and(app("bvule", sv.off, "qi"), app("bvult", rel, sv.ln))
		ex.arrayDef(st, na, inner, ite(inside, sel(old, app("bvadd", sv.off, app(perm, rel))), sel(old, "qi")), "")
		return Sc{sto(l.T, sv.ref, na), l.S}
	})
	ex.setHeapTree(st, AElems, el, nt)
	return nil
}

func (vc *VC) DeclareFun(name string, args []Sort, res Sort) {
	if vc.declared["fun:"+name] {
		return
	}
	vc.declared["fun:"+name] = true
	var as []string
	for _, a := range args {
		as = append(as, string(a))
	}
	vc.cmds = append(vc.cmds, fmt.Sprintf("(declare-fun %s (%s) %s)", name, strings.Join(as, " "), res))
}

// valOrErr: library functions of the shape (T, error) with T a pointer or
// interface return a non-nil T when the error is nil (documented behaviour of
// the listed functions).
func valOrErr(ex *Exec, st *State, fr *Frame, callee *ssa.Function, args []Val, c *ssa.CallCommon, pos token.Pos) Val {
	for _, a := range args {
		ex.markEscapedAny(a)
	}
	ex.vc.Trust("library calls returning (value, error) yield a non-nil value when the error is nil")
	return ex.valOrErrResults(st, c.Signature().Results(), "lib")
}

func (ex *Exec) valOrErrResults(st *State, res *types.Tuple, hint string) Val {
	v := ex.freshResults(st, res, hint)
	if res.Len() == 2 {
		if a, ok := v.(*Agg); ok {
			k := kindOf(res.At(0).Type())
			if (k == KPtr || k == KIface) && kindOf(res.At(1).Type()) == KIface {
				ex.assume(st, implies(eq(sc(a.F[1]).T, z64()), not(eq(sc(a.F[0]).T, z64()))))
			}
		}
	}
	return v
}

// httpRespErr: the documented contract of http.Post/Get/Do: the response is
// non-nil exactly when the error is nil.
func httpRespErr(ex *Exec, st *State, fr *Frame, callee *ssa.Function, args []Val, c *ssa.CallCommon, pos token.Pos) Val {
	ex.blockingCall(st, fr, callee.Name(), pos)
	resp := ex.vc.Fresh("resp", SRef)
	err := ex.vc.Fresh("err", SRef)
	ex.assume(st, eq(eq(err, z64()), not(eq(resp, z64()))))
	ex.assume(st, or(eq(resp, z64()), sel(st.alloc, resp)))
	ex.vc.Trust("net/http client calls return a non-nil response exactly when the error is nil (documented contract)")
	return &Agg{F: []Val{Sc{resp, SRef}, Sc{err, SRef}}}
}

// f64bits: math.Float64bits as an uninterpreted function whose result converts
// back to its argument (so the same float always yields the same bits).
func (ex *Exec) f64bits(f string) string {
	ex.vc.DeclareFun("F64bits", []Sort{SFP}, BV(64))
	b := app("F64bits", f)
	if ex.vc.noBind == 0 {
		ex.vc.Assume(eq(app("(_ to_fp 11 53)", b), f))
	}
	return b
}

// Blocking-read typestate (C12, "can still be shut down in bounded time"): a
// read on a network connection inside a goroutine that shutdown waits for
// needs a deadline on that connection.
func connSetDeadline(ex *Exec, st *State, fr *Frame, callee *ssa.Function, args []Val, c *ssa.CallCommon, pos token.Pos) Val {
	h := sc(args[0]).T
	st.ghost["$deadline_"+h] = Sc{"true", SBool}
	return ex.freshResults(st, c.Signature().Results(), "dl")
}

func (ex *Exec) needDeadline(st *State, fr *Frame, connV Val, what string, pos token.Pos) {
	// the rule belongs to the server's shutdown claim (C12): goroutines that
	// ThreadGroup.Stop waits for
	if !ex.lockChecks || ex.top.Pkg == nil || ex.top.Pkg.Pkg.Name() != "server" {
		return
	}
	h, ok := connV.(Sc)
	if !ok {
		return
	}
	has := "false"
	if v, ok := st.ghost["$deadline_"+h.T]; ok {
		has = sc(v).T
	}
	ex.oblige(st, fr, "blocking", pos, "", has)
	ex.vc.Trust("blocking typestate: a read on a net.Conn is bounded only if a deadline was set on that connection")
}

func connRead(ex *Exec, st *State, fr *Frame, callee *ssa.Function, args []Val, c *ssa.CallCommon, pos token.Pos) Val {
	ex.needDeadline(st, fr, args[0], "Read", pos)
	ex.blockingCall(st, fr, "conn.Read", pos)
	if len(c.Args) >= 1 {
		ex.havocArg(st, args[1], c.Args[0].Type())
	}
	return ex.freshResults(st, c.Signature().Results(), "rd")
}

func ioReadFull(ex *Exec, st *State, fr *Frame, callee *ssa.Function, args []Val, c *ssa.CallCommon, pos token.Pos) Val {
	// only connections are subject to the deadline rule; the reader's static
	// type at the call site tells
	if mi, ok := c.Args[0].(*ssa.ChangeInterface); ok && strings.Contains(mi.X.Type().String(), "net.Conn") {
		ex.needDeadline(st, fr, args[0], "io.ReadFull", pos)
	} else if strings.Contains(c.Args[0].Type().String(), "net.Conn") {
		ex.needDeadline(st, fr, args[0], "io.ReadFull", pos)
	}
	ex.blockingCall(st, fr, "io.ReadFull", pos)
	ex.havocArg(st, args[1], c.Args[1].Type())
	res := ex.freshResults(st, c.Signature().Results(), "rf")
	// n == len(buf) when err == nil
	if a, ok := res.(*Agg); ok {
		ln := ex.lenOf(st, args[1], c.Args[1].Type())
		ex.assume(st, implies(eq(sc(a.F[1]).T, z64()), eq(sc(a.F[0]).T, ln)))
	}
	return res
}

// binary.Read(r, order, &x): fills *x with unconstrained data, or fails.
func binaryRead(ex *Exec, st *State, fr *Frame, callee *ssa.Function, args []Val, c *ssa.CallCommon, pos token.Pos) Val {
	// the destination travels inside an interface value
	if h, ok := args[2].(Sc); ok {
		if rec, has := ex.ifacePayload[h.T]; has {
			ex.havocArg(st, rec.v, rec.t)
		}
	}
	ex.vc.Trust("encoding/binary.Read fills its destination with unconstrained data or returns an error")
	return ex.freshResults(st, c.Signature().Results(), "binread")
}

// csv.Reader.Read returns an error or a record with at least one field
// (nothing is assumed about the number of columns).
func csvRead(ex *Exec, st *State, fr *Frame, callee *ssa.Function, args []Val, c *ssa.CallCommon, pos token.Pos) Val {
	v := ex.freshResults(st, c.Signature().Results(), "csv")
	a := v.(*Agg)
	rec := a.F[0].(*Agg)
	ex.assume(st, implies(eq(sc(a.F[1]).T, z64()), and(app("bvsge", sc(rec.F[2]).T, bvInt(1, 64)), not(eq(sc(rec.F[0]).T, z64())))))
	ex.vc.Trust("encoding/csv.Reader.Read returns an error or a record with at least one field (column count unconstrained)")
	return v
}

// math/big values that the verified code only uses as bounded random indices:
// an opaque handle with a ghost 64-bit value.
func bigVal(ex *Exec, h string) string {
	ex.vc.DeclareFun("BigVal", []Sort{SRef}, BV(64))
	return app("BigVal", h)
}

func bigNewInt(ex *Exec, st *State, fr *Frame, callee *ssa.Function, args []Val, c *ssa.CallCommon, pos token.Pos) Val {
	h := ex.vc.Fresh("big", SRef)
	ex.assume(st, and(not(eq(h, z64())), eq(bigVal(ex, h), sc(args[0]).T)))
	return Sc{h, SRef}
}

func bigInt64(ex *Exec, st *State, fr *Frame, callee *ssa.Function, args []Val, c *ssa.CallCommon, pos token.Pos) Val {
	return Sc{bigVal(ex, sc(args[0]).T), BV(64)}
}

// crypto/rand.Int(r, max): a value in [0, max) or an error.
func randInt(ex *Exec, st *State, fr *Frame, callee *ssa.Function, args []Val, c *ssa.CallCommon, pos token.Pos) Val {
	h := ex.vc.Fresh("rnd", SRef)
	e := ex.vc.Fresh("err", SRef)
	mx := bigVal(ex, sc(args[1]).T)
	ex.assume(st, implies(eq(e, z64()), and(not(eq(h, z64())), app("bvsle", z64(), bigVal(ex, h)), app("bvslt", bigVal(ex, h), mx))))
	ex.vc.Trust("crypto/rand.Int returns an error or a value in [0, max)")
	return &Agg{F: []Val{Sc{h, SRef}, Sc{e, SRef}}}
}

// nonNilResult: library constructors return a non-nil object.
func nonNilResult(ex *Exec, st *State, fr *Frame, callee *ssa.Function, args []Val, c *ssa.CallCommon, pos token.Pos) Val {
	for _, a := range args {
		ex.markEscapedAny(a)
	}
	v := ex.freshResults(st, c.Signature().Results(), "new")
	if s, ok := v.(Sc); ok && s.S == SRef {
		ex.assume(st, not(eq(s.T, z64())))
	}
	ex.vc.Trust("library constructors (New*) return non-nil objects")
	return v
}

// Ghost file contents (whole-file writes): filepath.Join remembers its last
// element (PathLast), os.WriteFile records the identity of the bytes written
// under that name in the ghost component GhostFile.
func pathJoin(ex *Exec, st *State, fr *Frame, callee *ssa.Function, args []Val, c *ssa.CallCommon, pos token.Pos) Val {
	r := ex.freshVal(types.Typ[types.String], "path")
	// variadic: the arguments arrive as one []string
	if sl, ok := args[0].(*Agg); ok {
		sv := ex.viewSlice(sl, c.Args[0].Type())
		if n, ok := constBV(sv.ln); ok && n >= 1 {
			last := sc(ex.load(st, sv.elemAddr(bvU(n-1, 64)))).T
			ex.vc.DeclareFun("PathLast", []Sort{SStr}, SStr)
			ex.assume(st, eq(app("PathLast", sc(r).T), last))
		}
	}
	return r
}

// bytesIdAny: identity of a byte slice of any (possibly symbolic) length.
func (ex *Exec) bytesIdAny(st *State, v Val, t types.Type) string {
	sv := ex.viewSlice(v, t)
	if sv.root {
		if n, ok := constBV(sv.ln); ok && n > 0 && n <= 160 {
			return ex.bytesId(st, v, t)
		}
		m := sc(ex.heapTree(st, AElems, sv.elemT)).T
		return app("BytesId", sel(m, sv.ref), sv.off, sv.ln)
	}
	if n, ok := constBV(sv.ln); ok && n > 0 && n <= 160 {
		parts := make([]string, 0, n)
		for i := int64(n) - 1; i >= 0; i-- {
			parts = append(parts, sc(ex.load(st, sv.elemAddr(bvInt(i, 64)))).T)
		}
		tt := parts[0]
		if len(parts) > 1 {
			tt = "(concat " + strings.Join(parts, " ") + ")"
		}
		return ex.msgId(Sc{ex.vc.Bind("msgbytes", BV(8*int(n)), tt), BV(8 * int(n))})
	}
	return ex.vc.Fresh("bytesid", BV(64))
}

// strconv.ParseInt / ParseFloat are deterministic functions of their string
// argument (base 10 / 64 bit as used here): value and failure are
// uninterpreted functions of the string, so contracts can speak about "the
// number this column parses to" (contract functions PIVal, PIErr, PFVal, PFErr).
func parseIntModel(ex *Exec, st *State, fr *Frame, callee *ssa.Function, args []Val, c *ssa.CallCommon, pos token.Pos) Val {
	ex.vc.Trust("strconv.ParseInt / ParseFloat: value and error are functions of the string argument (documented behaviour; base 10, 64 bit)")
	ex.vc.DeclareFun("PIVal", []Sort{SStr, BV(64), BV(64)}, BV(64))
	ex.vc.DeclareFun("PIErr", []Sort{SStr, BV(64), BV(64)}, SBool)
	s, base, bits := sc(args[0]).T, sc(args[1]).T, sc(args[2]).T
	e := ex.vc.Fresh("perr", SRef)
	ex.assume(st, eq(eq(e, z64()), not(app("PIErr", s, base, bits))))
	return &Agg{F: []Val{Sc{app("PIVal", s, base, bits), BV(64)}, Sc{e, SRef}}}
}

func parseFloatModel(ex *Exec, st *State, fr *Frame, callee *ssa.Function, args []Val, c *ssa.CallCommon, pos token.Pos) Val {
	ex.vc.Trust("strconv.ParseInt / ParseFloat: value and error are functions of the string argument (documented behaviour; base 10, 64 bit)")
	ex.vc.DeclareFun("PFVal", []Sort{SStr}, SFP)
	ex.vc.DeclareFun("PFErr", []Sort{SStr}, SBool)
	s := sc(args[0]).T
	e := ex.vc.Fresh("perr", SRef)
	ex.assume(st, eq(eq(e, z64()), not(app("PFErr", s))))
	return &Agg{F: []Val{Sc{app("PFVal", s), SFP}, Sc{e, SRef}}}
}
