package main

// Function body execution: reverse post-order over the CFG without back
// edges, state merging at joins, loop cutting at headers.

import (
	"fmt"
	"go/token"
	"go/types"
	"os"
	"sort"
	"strings"

	"golang.org/x/tools/go/ssa"
)

type loopInfo struct {
	header  *ssa.BasicBlock
	blocks  map[*ssa.BasicBlock]bool
	latches []*ssa.BasicBlock
	ordinal int // 1-based, by header block index (source order)
}

func findLoops(fn *ssa.Function) map[*ssa.BasicBlock]*loopInfo {
	loops := map[*ssa.BasicBlock]*loopInfo{}
	for _, b := range fn.Blocks {
		for _, s := range b.Succs {
			if s.Dominates(b) { // back edge b -> s
				li := loops[s]
				if li == nil {
					li = &loopInfo{header: s, blocks: map[*ssa.BasicBlock]bool{s: true}}
					loops[s] = li
				}
				li.latches = append(li.latches, b)
				// natural loop: everything that reaches b without passing s
				var stack []*ssa.BasicBlock
				if !li.blocks[b] {
					li.blocks[b] = true
					stack = append(stack, b)
				}
				for len(stack) > 0 {
					x := stack[len(stack)-1]
					stack = stack[:len(stack)-1]
					for _, p := range x.Preds {
						if !li.blocks[p] {
							li.blocks[p] = true
							stack = append(stack, p)
						}
					}
				}
			}
		}
	}
	var hs []*ssa.BasicBlock
	for h := range loops {
		hs = append(hs, h)
	}
	sort.Slice(hs, func(i, j int) bool { return hs[i].Index < hs[j].Index })
	for i, h := range hs {
		loops[h].ordinal = i + 1
	}
	return loops
}

func rpoNoBack(fn *ssa.Function) []*ssa.BasicBlock {
	seen := map[*ssa.BasicBlock]bool{}
	var post []*ssa.BasicBlock
	var dfs func(b *ssa.BasicBlock)
	dfs = func(b *ssa.BasicBlock) {
		seen[b] = true
		for _, s := range b.Succs {
			if s.Dominates(b) {
				continue
			}
			if !seen[s] {
				dfs(s)
			}
		}
		post = append(post, b)
	}
	dfs(fn.Blocks[0])
	for i, j := 0, len(post)-1; i < j; i, j = i+1, j-1 {
		post[i], post[j] = post[j], post[i]
	}
	return post
}

type edgeKey struct {
	from *ssa.BasicBlock
	succ int
}

// execBody runs fr.fn from state st and returns the merged exit state and
// results (nil state if no exit is reachable).
func (ex *Exec) execBody(fr *Frame, st *State) (*State, []Val) {
	fn := fr.fn
	if len(fn.Blocks) == 0 {
		ex.unsupportedf("function %s has no body", fn)
	}
	prev := ex.curFrame
	ex.curFrame = fr
	defer func() { ex.curFrame = prev }()
	if fr.entry == nil {
		fr.entry = st.clone()
	}
	for i, p := range fn.Params {
		fr.regs[p] = fr.params[i]
	}
	loops := findLoops(fn)
	edges := map[edgeKey]*State{}
	headerLocks := map[*ssa.BasicBlock]map[string]string{}
	for _, b := range rpoNoBack(fn) {
		var cur *State
		type inEdge struct {
			st  *State
			idx int // index in b.Preds
		}
		var ins []inEdge
		if b.Index == 0 {
			cur = st
		} else {
			occ := map[*ssa.BasicBlock]int{}
			for i, p := range b.Preds {
				k := occ[p]
				occ[p]++
				if b.Dominates(p) {
					continue // back edge
				}
				// k-th occurrence of b among p.Succs
				si, c := -1, 0
				for j, s := range p.Succs {
					if s == b {
						if c == k {
							si = j
							break
						}
						c++
					}
				}
				es := edges[edgeKey{p, si}]
				if es == nil || es.guard == "false" {
					continue
				}
				ins = append(ins, inEdge{es, i})
			}
			if len(ins) == 0 {
				continue // unreachable
			}
			// phis first (they read edge guards)
			for _, in := range b.Instrs {
				phi, ok := in.(*ssa.Phi)
				if !ok {
					break
				}
				var acc Val
				for k := len(ins) - 1; k >= 0; k-- {
					v := ex.val(fr, phi.Edges[ins[k].idx])
					if acc == nil {
						acc = v
					} else {
						acc = ex.mergeVals(ins[k].st.guard, v, acc, phi.Comment)
					}
				}
				if li := loops[b]; li != nil {
					// a phi at a loop header has a back-edge operand: havoc
					acc = ex.freshVal(phi.Type(), "phi_"+phi.Comment)
				}
				fr.regs[phi] = acc
			}
			for _, in := range ins {
				cur = ex.mergeStates(cur, in.st)
			}
		}
		if li := loops[b]; li != nil {
			ex.cutLoop(fr, cur, li)
			headerLocks[b] = map[string]string{}
			for k, v := range cur.locks {
				headerLocks[b][k] = v
			}
		}
		cur.guard = ex.vc.Bind(fmt.Sprintf("g_b%d", b.Index), SBool, cur.guard)
		ex.curBlock = b
		// instructions
		for _, in := range b.Instrs {
			if _, ok := in.(*ssa.Phi); ok {
				continue
			}
			switch x := in.(type) {
			case *ssa.Jump:
				ex.flow(fr, loops, edges, headerLocks, b, 0, cur, "true")
			case *ssa.If:
				c := ex.vc.Bind("c", SBool, sc(ex.val(fr, x.Cond)).T)
				ex.flow(fr, loops, edges, headerLocks, b, 0, cur, c)
				ex.flow(fr, loops, edges, headerLocks, b, 1, cur, not(c))
			case *ssa.Return:
				var rs []Val
				for _, r := range x.Results {
					rs = append(rs, ex.val(fr, r))
				}
				fr.exits = append(fr.exits, exitRec{cur.clone(), rs})
			case *ssa.Panic:
				ex.doPanic(cur, fr, x)
			default:
				ex.step(cur, fr, in)
			}
		}
	}
	// merge exits
	var out *State
	var res []Val
	for _, e := range fr.exits {
		if e.st.guard == "false" {
			continue
		}
		if out == nil {
			out, res = e.st, e.results
			continue
		}
		g := out.guard
		for i := range res {
			res[i] = ex.mergeVals(g, res[i], e.results[i], "ret")
		}
		out = ex.mergeStates(out, e.st)
	}
	return out, res
}

func (ex *Exec) flow(fr *Frame, loops map[*ssa.BasicBlock]*loopInfo, edges map[edgeKey]*State, headerLocks map[*ssa.BasicBlock]map[string]string, b *ssa.BasicBlock, si int, cur *State, cond string) {
	succ := b.Succs[si]
	es := cur.clone()
	es.guard = ex.vc.Bind("ge", SBool, and(cur.guard, cond))
	// exit edges: b inside a loop, succ outside it
	for _, li := range loops {
		if li.blocks[b] && !li.blocks[succ] {
			if lc := ex.loopContract(fr, li); lc != nil && len(lc.Exit) > 0 {
				pos := token.NoPos
				if n := len(b.Instrs); n > 0 {
					pos = b.Instrs[n-1].Pos()
				}
				for _, cl := range lc.Exit {
					for _, part := range ex.splitClauseE(fr, es, nil, cl) {
						o := ex.oblige(es, fr, fmt.Sprintf("loop-exit(L%d)", li.ordinal), pos, part.text, part.term)
						if o != nil && len(cl.Props) > 0 {
							o.Props = cl.Props
						}
					}
				}
			}
		}
	}
	if succ.Dominates(b) {
		// back edge: invariant preservation
		li := loops[succ]
		ex.checkInvariants(fr, es, li, "inv-pres")
		ex.checkBackEdge(fr, es, li, b)
		for k, v := range headerLocks[succ] {
			if lockTerm(es, k) != v {
				ex.oblige(es, fr, "lock-balance", b.Instrs[len(b.Instrs)-1].Pos(), "loop "+fmt.Sprint(li.ordinal)+" back edge: "+k, eq(lockTerm(es, k), v))
			}
		}
		for k := range es.locks {
			if _, ok := headerLocks[succ][k]; !ok {
				ex.oblige(es, fr, "lock-balance", b.Instrs[len(b.Instrs)-1].Pos(), "loop "+fmt.Sprint(li.ordinal)+" back edge: "+k, not(lockTerm(es, k)))
			}
		}
		return
	}
	edges[edgeKey{b, si}] = es
}

func (ex *Exec) doPanic(st *State, fr *Frame, x *ssa.Panic) {
	if fr.ct != nil && fr.ct.AllowPanic {
		ex.vc.Assume(not(st.guard))
		return
	}
	if fr != nil && fr.chain != "" && ex.db.allowPanic(funcName(fr.fn)) {
		ex.vc.Assume(not(st.guard))
		return
	}
	ex.oblige(st, fr, "panic", x.Pos(), "", "false")
}

// ---------------------------------------------------------------------------
// loops

type writeSet struct {
	cells  map[*ssa.Alloc]bool
	comps  map[string]bool        // component key prefixes
	roots  map[string][]ssa.Value // per prefix: the root pointer / slice / map values written through
	anyRef map[string]bool        // per prefix: some write has an unknown root
	all    bool
	ghost  bool
	allocs bool
	why    []string
	blocks map[*ssa.BasicBlock]bool // the loop being analysed
}

func (ws *writeSet) setAll(why string) {
	ws.all = true
	ws.why = append(ws.why, why)
}

// add records a write to the component family `prefix` through root value v
// (nil = unknown object).
func (ws *writeSet) add(prefix string, v ssa.Value) {
	// an object allocated inside the loop is fresh in every iteration: writes to
	// it cannot change any object that existed at the loop header
	if al, ok := v.(*ssa.Alloc); ok && al.Heap && ws.blocks != nil && ws.blocks[al.Block()] {
		ws.allocs = true
		return
	}
	if ms, ok := v.(*ssa.MakeSlice); ok && ws.blocks != nil && ws.blocks[ms.Block()] {
		ws.allocs = true
		return
	}
	if mm, ok := v.(*ssa.MakeMap); ok && ws.blocks != nil && ws.blocks[mm.Block()] {
		ws.allocs = true
		return
	}
	ws.comps[prefix] = true
	if v == nil {
		ws.anyRef[prefix] = true
		return
	}
	ws.roots[prefix] = append(ws.roots[prefix], v)
}

func (ex *Exec) loopWrites(fr *Frame, li *loopInfo) *writeSet {
	ws := &writeSet{cells: map[*ssa.Alloc]bool{}, comps: map[string]bool{}, roots: map[string][]ssa.Value{}, anyRef: map[string]bool{}, blocks: li.blocks}
	for b := range li.blocks {
		for _, in := range b.Instrs {
			ex.instrWrites(fr, in, ws, 0)
		}
	}
	return ws
}

// addrRoot statically traces an address computation to its root.
func addrRoot(v ssa.Value) (cell *ssa.Alloc, prefix string, ok bool) {
	cell, prefix, _, ok = addrRootV(v)
	return
}

// addrRootV also returns the SSA value of the root object (pointer or slice)
// when the address is not rooted in a local cell.
func addrRootV(v ssa.Value) (cell *ssa.Alloc, prefix string, root ssa.Value, ok bool) {
	path := ""
	for {
		switch x := v.(type) {
		case *ssa.FieldAddr:
			st := x.X.Type().Underlying().(*types.Pointer).Elem().Underlying().(*types.Struct)
			path = "_" + st.Field(x.Field).Name() + path
			v = x.X
		case *ssa.IndexAddr:
			switch kindOf(x.X.Type()) {
			case KSlice:
				el := x.X.Type().Underlying().(*types.Slice).Elem()
				return nil, rootKey(AElems, el) + path, x.X, true
			case KPtr:
				at := x.X.Type().Underlying().(*types.Pointer).Elem()
				if kindOf(at) == KPacked {
					v = x.X
					continue
				}
				path = "_el" + path
				// the pointer may itself be an address computation (array field) or a root pointer
				switch x.X.(type) {
				case *ssa.FieldAddr, *ssa.IndexAddr, *ssa.Alloc:
					v = x.X
					continue
				}
				el := at.Underlying().(*types.Array).Elem()
				return nil, rootKey(AElems, el) + path[len("_el"):], x.X, true
			default:
				return nil, "", nil, false
			}
		case *ssa.Alloc:
			if !x.Heap || cellLike(x) {
				return x, "", nil, true
			}
			t := x.Type().Underlying().(*types.Pointer).Elem()
			if kindOf(t) == KArr {
				el := t.Underlying().(*types.Array).Elem()
				if len(path) >= 3 && path[:3] == "_el" {
					path = path[3:]
				}
				return nil, rootKey(AElems, el) + path, x, true
			}
			return nil, rootKey(AHeap, t) + path, x, true
		case *ssa.Global:
			return nil, "", nil, false
		default:
			// a root pointer value
			pt, isPtr := v.Type().Underlying().(*types.Pointer)
			if !isPtr {
				return nil, "", nil, false
			}
			if kindOf(pt.Elem()) == KArr {
				el := pt.Elem().Underlying().(*types.Array).Elem()
				if len(path) >= 3 && path[:3] == "_el" {
					path = path[3:]
				}
				return nil, rootKey(AElems, el) + path, v, true
			}
			return nil, rootKey(AHeap, pt.Elem()) + path, v, true
		}
	}
}

func (ex *Exec) instrWrites(fr *Frame, in ssa.Instruction, ws *writeSet, depth int) {
	switch x := in.(type) {
	case *ssa.Store:
		cell, prefix, root, ok := addrRootV(x.Addr)
		switch {
		case !ok:
			ws.setAll("site1")
		case cell != nil:
			ws.cells[cell] = true
		default:
			ws.add(prefix, root)
		}
	case *ssa.Alloc:
		if !x.Heap || cellLike(x) {
			ws.cells[x] = true
		} else {
			ws.allocs = true // content of a fresh object: no existing ref is affected
		}
	case *ssa.MapUpdate:
		ws.add("Map_"+typeKey(x.Map.Type().Underlying()), x.Map)
	case *ssa.MakeMap, *ssa.MakeSlice:
		ws.allocs = true
	case *ssa.Convert:
		if kindOf(x.Type()) == KSlice {
			ws.allocs = true
		}
	case *ssa.Next:
		ws.ghost = true
	case *ssa.RunDefers:
		// deferred calls registered by this frame
		for _, b := range fr.fn.Blocks {
			for _, i2 := range b.Instrs {
				if d, ok := i2.(*ssa.Defer); ok {
					ex.callWrites(fr, d.Common(), ws, depth)
				}
			}
		}
	case *ssa.Call:
		ex.callWrites(fr, x.Common(), ws, depth)
	case *ssa.Go, *ssa.Send, *ssa.Select:
	}
}

func (ex *Exec) callWrites(fr *Frame, c *ssa.CallCommon, ws *writeSet, depth int) {
	if c.IsInvoke() {
		ex.argWrites(c, ws)
		return
	}
	switch callee := c.Value.(type) {
	case *ssa.Builtin:
		switch callee.Name() {
		case "append":
			el := c.Args[0].Type().Underlying().(*types.Slice).Elem()
			ws.add(rootKey(AElems, el), c.Args[0]) // in-place case writes the old backing store
			ws.allocs = true
		case "copy":
			if sl, ok := c.Args[0].Type().Underlying().(*types.Slice); ok {
				// destination may be an interior slice of a cell or struct
				if !ws.markSliceDest(c.Args[0]) {
					ws.add(rootKey(AElems, sl.Elem()), c.Args[0])
				}
			}
		case "delete":
			ws.add("Map_"+typeKey(c.Args[0].Type().Underlying()), c.Args[0])
		case "clear":
			ws.setAll("site2")
		}
	case *ssa.Function:
		fnm := fullName(callee)
		if pureCallees[fnm] || isLoggerCall(callee) {
			return
		}
		if _, ok := intrinsics[fnm]; ok {
			if strings.HasSuffix(fnm, ".Lock") || strings.HasSuffix(fnm, ".RLock") {
				// taking a lock forgets what it guards: resolve the guarded
				// families from the static type of the mutex expression
				if !ex.staticLockWrites(c.Args[0], ws) {
					ws.setAll("site3")
				}
				return
			}
			if iw, ok := intrinsicWrites[fnm]; ok {
				iw(c, ws)
			}
			return
		}
		if ct := ex.db.funcs[funcName(callee)]; ct != nil && ct.HasAssigns {
			// resolve the frame statically where its shape allows it
			if ct.AssignsAll {
				ws.setAll("site4")
				return
			}
			for _, ap := range ct.Assigns {
				if !ex.staticAssign(callee, ap.Expr, ws) {
					ws.setAll("site5")
					return
				}
			}
			return
		}
		if len(callee.Blocks) > 0 && (inModule(callee) || inlineExternal(callee)) && depth < 3 {
			sub := &Frame{fn: callee}
			for _, b := range callee.Blocks {
				for _, in := range b.Instrs {
					if st, ok := in.(*ssa.Store); ok {
						if cell, _, ok2 := addrRoot(st.Addr); ok2 && cell != nil {
							continue // callee's own locals
						}
					}
					if _, ok := in.(*ssa.Alloc); ok {
						continue
					}
					ex.instrWrites(sub, in, ws, depth+1)
				}
			}
			return
		}
		if inModule(callee) {
			ws.setAll("site6")
			return
		}
		ex.argWrites(c, ws)
	default:
		// closure or function value
		if mc, ok := c.Value.(*ssa.MakeClosure); ok && depth < 3 {
			callee := mc.Fn.(*ssa.Function)
			sub := &Frame{fn: callee}
			for _, b := range callee.Blocks {
				for _, in := range b.Instrs {
					ex.instrWrites(sub, in, ws, depth+1)
				}
			}
			// writes through captured variables
			ws.setAll("site7")
			return
		}
		ws.setAll("site8")
	}
}

// markSliceDest handles a destination that is a slice expression over an
// addressable array (local or field); reports whether it did.
// staticLockWrites: component families guarded by the mutex whose address is
// computed by v (a chain of field selections from a pointer).
func (ex *Exec) staticLockWrites(v ssa.Value, ws *writeSet) bool {
	var fields []int
	cur := v
	for {
		fa, ok := cur.(*ssa.FieldAddr)
		if !ok {
			break
		}
		fields = append([]int{fa.Field}, fields...)
		cur = fa.X
	}
	pt, ok := cur.Type().Underlying().(*types.Pointer)
	if !ok || len(fields) == 0 {
		return false
	}
	root := pt.Elem()
	t := root
	var path []PathEl
	for i, fi := range fields {
		st, ok := t.Underlying().(*types.Struct)
		if !ok {
			return false
		}
		if i == len(fields)-1 {
			on := ownerName(t)
			name := st.Field(fi).Name()
			for _, ld := range ex.db.locks {
				if ld.Owner == on && ld.MuField == name {
					owner := &Addr{Kind: AHeap, Root: root, ArrLen: -1, Path: path}
					for pre := range ex.reachableComps(owner, t, ld) {
						ws.add(pre, nil)
					}
					return true
				}
			}
			return true // a mutex without a declaration guards nothing we track
		}
		path = append(path, PathEl{Field: fi})
		t = st.Field(fi).Type()
	}
	return false
}

// staticAssign resolves an assigns pattern of a callee to component families
// using only types: ghost counters and guarded(<param>[.field].mu).
func (ex *Exec) staticAssign(callee *ssa.Function, e Expr, ws *writeSet) bool {
	switch x := e.(type) {
	case *EIdent:
		if strings.HasPrefix(x.Name, "$") {
			ws.add("Ghost_"+strings.TrimPrefix(x.Name, "$"), nil)
			return true
		}
	case *ECall:
		if x.Fn == "handlefile" {
			ws.add(handleBytesKey, nil)
			ws.add(handleLenKey, nil)
			return true
		}
		if x.Fn == "file" {
			ws.add(ghostFileKey, nil)
			ws.add(ghostLenKey, nil)
			ws.add(ghostExistsKey, nil)
			return true
		}
		if x.Fn != "guarded" || len(x.Args) != 1 {
			return false
		}
		// walk param.field...field
		var names []string
		cur := x.Args[0]
		for {
			if s, ok := cur.(*ESel); ok {
				names = append([]string{s.Name}, names...)
				cur = s.X
				continue
			}
			break
		}
		id, ok := cur.(*EIdent)
		if !ok || len(names) == 0 {
			return false
		}
		var t types.Type
		for _, p := range callee.Params {
			if p.Name() == id.Name {
				t = p.Type()
			}
		}
		if t == nil {
			return false
		}
		var root types.Type
		var path []PathEl
		for i, n := range names {
			if pt, ok := t.Underlying().(*types.Pointer); ok {
				// a pointer hop starts a new root object (only its type matters:
				// the families are havocked for every object)
				t = pt.Elem()
				root = t
				path = nil
			}
			st, ok := t.Underlying().(*types.Struct)
			if !ok {
				return false
			}
			fi := fieldIndex(st, n)
			if fi < 0 {
				return false
			}
			if root == nil {
				return false
			}
			if i == len(names)-1 {
				owner := &Addr{Kind: AHeap, Root: root, ArrLen: -1, Path: path}
				on := ownerName(t)
				for _, ld := range ex.db.locks {
					if ld.Owner == on && ld.MuField == n {
						for pre := range ex.reachableComps(owner, t, ld) {
							ws.add(pre, nil)
						}
						return true
					}
				}
				return false
			}
			path = append(path, PathEl{Field: fi})
			t = st.Field(fi).Type()
		}
	}
	return false
}

func (ws *writeSet) markSliceDest(v ssa.Value) bool {
	if sl, ok := v.(*ssa.Slice); ok {
		if _, isPtr := sl.X.Type().Underlying().(*types.Pointer); !isPtr {
			return false
		}
		if cell, prefix, root, ok := addrRootV(sl.X); ok {
			if cell != nil {
				ws.cells[cell] = true
			} else {
				ws.add(prefix, root)
			}
			return true
		}
	}
	return false
}

// argWrites: an external call may write the memory its pointer and slice
// arguments point to (one level).
func (ex *Exec) argWrites(c *ssa.CallCommon, ws *writeSet) {
	for _, a := range c.Args {
		switch kindOf(a.Type()) {
		case KSlice:
			if !ws.markSliceDest(a) {
				ws.add(rootKey(AElems, a.Type().Underlying().(*types.Slice).Elem()), a)
			}
		case KPtr:
			if cell, prefix, root, ok := addrRootV(a); ok {
				if cell != nil {
					ws.cells[cell] = true
				} else {
					ws.add(prefix, root)
				}
			}
		}
	}
}

// invariantRef resolves the root object of a write to a term that is the
// same in every iteration: a value defined before the loop, or a load from a
// local that the loop does not modify.
func (ex *Exec) invariantRef(fr *Frame, st *State, li *loopInfo, ws *writeSet, v ssa.Value) (string, bool) {
	refOf := func(x Val) (string, bool) {
		switch y := x.(type) {
		case Sc:
			if y.S == SRef {
				return y.T, true
			}
		case *Agg:
			if len(y.F) == 4 {
				if r, ok := y.F[0].(Sc); ok {
					return r.T, true
				}
			}
		}
		return "", false
	}
	switch x := v.(type) {
	case *ssa.Parameter, *ssa.FreeVar:
		if r, ok := fr.regs[v]; ok {
			return refOf(r)
		}
	case *ssa.UnOp:
		if x.Op == token.MUL && li.blocks[x.Block()] {
			// load inside the loop: from an unmodified local?
			var path []PathEl
			a := x.X
			for {
				if fa, ok := a.(*ssa.FieldAddr); ok {
					path = append([]PathEl{{Field: fa.Field}}, path...)
					a = fa.X
					continue
				}
				break
			}
			if al, ok := a.(*ssa.Alloc); ok && (!al.Heap || cellLike(al)) && !ws.cells[al] {
				if cur, ok := st.cells[al]; ok {
					t := al.Type().Underlying().(*types.Pointer).Elem()
					val := cur
					if len(path) > 0 {
						val = navRead(cur, t, path, nil)
					}
					return refOf(val)
				}
			}
			return "", false
		}
	}
	if ins, ok := v.(ssa.Instruction); ok && ins.Block() != nil && !li.blocks[ins.Block()] {
		if r, ok := fr.regs[v]; ok {
			return refOf(r)
		}
	}
	return "", false
}

// havocLoopComps forgets what the loop may write: whole component families
// when the written object is unknown, single objects otherwise.
func (ex *Exec) havocLoopComps(fr *Frame, st *State, li *loopInfo, ws *writeSet) {
	whole := map[string]bool{}
	perRef := map[string][]string{}
	for p := range ws.comps {
		if ws.anyRef[p] {
			whole[p] = true
			continue
		}
		ok := true
		var refs []string
		for _, v := range ws.roots[p] {
			r, good := ex.invariantRef(fr, st, li, ws, v)
			if !good {
				ok = false
				break
			}
			refs = append(refs, r)
		}
		if !ok {
			whole[p] = true
		} else {
			perRef[p] = refs
		}
	}
	if len(whole) > 0 {
		ex.epochs++
		ex.epochInfo[ex.epochs] = epochInfo{parent: st.epoch, prefixes: whole}
		st.epoch = ex.epochs
		ex.havocComps(st, whole)
	}
	// per-object havoc: components are created lazily, so make sure the ones
	// under the prefix exist by touching the known ones only; unknown (never
	// mentioned) components under the prefix are treated as whole-family.
	var ps []string
	for p := range perRef {
		ps = append(ps, p)
	}
	sort.Strings(ps)
	lazy := map[string]bool{}
	for _, p := range ps {
		for _, key := range sortedCompKeys(ex.comps) {
			if !hasPrefix(key, p) {
				continue
			}
			ci := ex.comps[key]
			cur := ex.comp(st, key, ci.sort)
			_, inner := ci.sort.ArrParts()
			for _, r := range perRef[p] {
				cur = sto(cur, r, ex.vc.Fresh("hv_"+key, inner))
			}
			st.heap[key] = ex.vc.Bind("h_"+key, ci.sort, cur)
		}
		lazy[p] = true
	}
	if len(lazy) > 0 {
		// components under these prefixes that are first mentioned later must
		// not resolve to the pre-loop constant
		ex.epochs++
		ex.epochInfo[ex.epochs] = epochInfo{parent: st.epoch, prefixes: lazy, lazyOnly: true}
		st.epoch = ex.epochs
	}
}

func sortedBlocks(m map[*ssa.BasicBlock]bool) []*ssa.BasicBlock {
	var bs []*ssa.BasicBlock
	for b := range m {
		bs = append(bs, b)
	}
	sort.Slice(bs, func(i, j int) bool { return bs[i].Index < bs[j].Index })
	return bs
}

func hasPrefix(s, p string) bool { return len(s) >= len(p) && s[:len(p)] == p }

func (ex *Exec) havocComps(st *State, prefixes map[string]bool) {
	// make sure every component under the prefixes exists: components are
	// created lazily, so a prefix may name ones not touched yet; they are
	// handled by giving them fresh names on first use in the new epoch only
	// if everything is havocked. For precise havoc we enumerate known ones.
	keys := make([]string, 0, len(ex.comps))
	for k := range ex.comps {
		keys = append(keys, k)
	}
	sort.Strings(keys)
	for _, k := range keys {
		for p := range prefixes {
			if hasPrefix(k, p) {
				ci := ex.comps[k]
				st.heap[k] = ex.vc.Fresh("hv_"+k, ci.sort)
				break
			}
		}
	}
}

// appendOnlyCell: every store to the local inside the loop is x = append(x, ...).
func appendOnlyCell(li *loopInfo, c *ssa.Alloc) bool {
	found := false
	for b := range li.blocks {
		for _, in := range b.Instrs {
			st, ok := in.(*ssa.Store)
			if !ok || st.Addr != c {
				continue
			}
			call, ok := st.Val.(*ssa.Call)
			if !ok {
				return false
			}
			bi, ok := call.Call.Value.(*ssa.Builtin)
			if !ok || bi.Name() != "append" {
				return false
			}
			ld, ok := call.Call.Args[0].(*ssa.UnOp)
			if !ok || ld.X != c {
				return false
			}
			found = true
		}
	}
	return found
}

func (ex *Exec) cutLoop(fr *Frame, st *State, li *loopInfo) {
	preAlloc := st.alloc
	if lc := ex.loopContract(fr, li); lc != nil {
		for _, cl := range lc.Init {
			for _, part := range ex.splitClauseE(fr, st, nil, cl) {
				o := ex.oblige(st, fr, fmt.Sprintf("loop-init(L%d)", li.ordinal), token.NoPos, part.text, part.term)
				if o != nil && len(cl.Props) > 0 {
					o.Props = cl.Props
				}
			}
		}
	}
	ex.checkInvariants(fr, st, li, "inv-init")
	ws := ex.loopWrites(fr, li)
	// components not yet known but possibly written later in the loop body
	// would keep their entry value: pre-touch by scanning is not possible for
	// lazily created ones, so remember the prefixes and havoc on creation.
	if ws.all {
		if os.Getenv("GOVC_DEBUG") != "" {
			fmt.Fprintf(os.Stderr, "loop %d of %s: whole heap havocked: %v\n", li.ordinal, funcName(fr.fn), ws.why)
		}
		ex.havocAllHeap(st, "loop")
	} else {
		ex.havocLoopComps(fr, st, li, ws)
	}
	if ws.allocs || ws.all {
		// objects allocated by earlier iterations are allocated at the header
		na := ex.vc.Fresh("alloc_hdr", ArrS(SRef, SBool))
		ex.assume(st, fmt.Sprintf("(forall ((qr (_ BitVec 64))) (! (=> (select %s qr) (select %s qr)) :pattern ((select %s qr))))", st.alloc, na, na))
		ex.assume(st, not(sel(na, z64())))
		st.alloc = na
	}
	var cells []*ssa.Alloc
	for c := range ws.cells {
		cells = append(cells, c)
	}
	sort.Slice(cells, func(i, j int) bool {
		return cells[i].Pos() < cells[j].Pos() || (cells[i].Pos() == cells[j].Pos() && cells[i].Name() < cells[j].Name())
	})
	for _, c := range cells {
		cur, ok := st.cells[c]
		if !ok {
			continue // declared inside the loop
		}
		if isExecOnly(cur) {
			ex.unsupportedf("loop %d of %s modifies local %s holding %T", li.ordinal, funcName(fr.fn), c.Comment, cur)
		}
		t := c.Type().Underlying().(*types.Pointer).Elem()
		nv := ex.freshVal(t, "lv_"+c.Comment)
		ex.validRefs(st, nv, t)
		if kindOf(t) == KSlice && appendOnlyCell(li, c) {
			// x = append(x, ...) is the only write: the backing store is the one
			// from before the loop or one allocated inside the loop
			if oa, ok := cur.(*Agg); ok {
				nr, or0 := sc(nv.(*Agg).F[0]).T, sc(oa.F[0]).T
				ex.assume(st, or(eq(nr, or0), not(sel(preAlloc, nr))))
			}
		}
		st.cells[c] = nv
	}
	if ws.ghost {
		// the set of keys already produced by a range statement inside the loop
		// is arbitrary at the header (constrained by invariants via visited())
		for _, b := range sortedBlocks(li.blocks) {
			for _, in := range b.Instrs {
				if nx, ok := in.(*ssa.Next); ok {
					if rng, ok := nx.Iter.(*ssa.Range); ok && !li.blocks[rng.Block()] {
						gk := fmt.Sprintf("$visited_%p", rng)
						if cur, has := st.ghost[gk]; has {
							s := sc(cur).S
							st.ghost[gk] = Sc{ex.vc.Fresh("visited", s), s}
						}
						ck := fmt.Sprintf("$vcount_%p", rng)
						if _, has := st.ghost[ck]; has {
							nc := ex.vc.Fresh("vcount", BV(64))
							ex.assume(st, app("bvsle", z64(), nc))
							if ws.comps["Map_"+typeKey(rng.X.Type().Underlying())] {
								delete(st.ghost, ck) // the map is modified while iterating: no counting facts
							} else {
								st.ghost[ck] = Sc{nc, BV(64)}
							}
						}
					}
				}
			}
		}
	}
	ex.assumeInvariants(fr, st, li)
	if ex.loopHdr == nil {
		ex.loopHdr = map[*loopInfo]*State{}
	}
	ex.loopHdr[li] = st.clone()
	// the quantified invariants assumed here are available for explicit
	// instantiation at later obligations
	if lc := ex.loopContract(fr, li); lc != nil {
		var parts []invConjE
		ex.invLoopBlocks = li.blocks
		for _, inv := range lc.Invariants {
			for _, e := range flattenAnd(inv.Expr) {
				parts = append(parts, ex.splitClauseE(fr, st, nil, Clause{Expr: e, Text: exprText(e)})...)
			}
		}
		ex.invLoopBlocks = nil
		hs := st.clone()
		ex.hyps = append(ex.hyps, hypRecord{state: hs, parts: parts, loopBlocks: li.blocks})
	}
}

type hypRecord struct {
	state      *State
	parts      []invConjE
	loopBlocks map[*ssa.BasicBlock]bool
}

// skolemWithHyps skolemises a universally quantified goal and instantiates the
// recorded quantified hypotheses (lock invariants assumed at Lock(), loop
// invariants assumed at headers) at the skolem constants, their successors,
// and their sums with the contract's hint terms. Every instance is a
// consequence of a fact that was assumed in the recorded state.
func (ex *Exec) skolemWithHyps(fr *Frame, st *State, part invConjE) (string, bool) {
	cond, q := quantShape(part.expr)
	if q == nil {
		return "", false
	}
	c := part.ctx(st)
	var sks []TVal
	for _, qv := range q.Vars {
		t := c.resolveType(qv.Type)
		if !isSingleLeaf(t) {
			return "", false
		}
		s := scalarSort(t)
		tv := TVal{V: Sc{ex.vc.Fresh("sk_"+qv.Name, s), s}, T: t}
		c.env[qv.Name] = tv
		sks = append(sks, tv)
	}
	goal := c.boolTerm(q.Body)
	if cond != nil {
		goal = implies(c.boolTerm(cond), goal)
	}
	ex.instantiateHyps(fr, st, sks)
	return goal, true
}

func (ex *Exec) instantiateHyps(fr *Frame, st *State, sks []TVal) {
	ex.instSeq++
	ex.pendingInst = ex.instSeq
	// hint terms of the verified function, evaluated now
	var hints []TVal
	if top := ex.topFrame; top != nil && top.ct != nil {
		for _, h := range top.ct.Hints {
			func() {
				defer func() { recover() }()
				hc := ex.newCtx(top, st, top.entry, nil)
				v := hc.coerce(hc.eval(h), types.Typ[types.Int])
				hints = append(hints, v)
			}()
		}
	}
	var cands []TVal
	for _, sk := range sks {
		cands = append(cands, sk)
		if isInteger(sk.T) {
			s := sc(sk.V)
			w := s.S.Width()
			cands = append(cands, TVal{V: Sc{app("bvadd", s.T, bvInt(1, w)), s.S}, T: sk.T})
			for _, h := range hints {
				hs := sc(h.V)
				if hs.S.Width() == w {
					cands = append(cands, TVal{V: Sc{app("bvadd", s.T, hs.T), s.S}, T: sk.T})
				}
			}
		}
	}
	for _, h := range hints {
		cands = append(cands, h)
	}
	n := len(ex.hyps)
	lo := n - 4
	if lo < 0 {
		lo = 0
	}
	for _, rec := range ex.hyps[lo:] {
		saved := ex.invLoopBlocks
		ex.invLoopBlocks = rec.loopBlocks
		for _, hp := range rec.parts {
			hcond, hq := quantShape(hp.expr)
			if hq == nil || len(hq.Vars) > 2 {
				continue
			}
			hc := hp.ctx(rec.state)
			count := 0
			var rcr func(k int)
			rcr = func(k int) {
				if count > 120 {
					return
				}
				if k == len(hq.Vars) {
					count++
					t := func() (t string) {
						defer func() {
							if r := recover(); r != nil {
								t = "true"
							}
						}()
						b := hc.boolTerm(hq.Body)
						if hcond != nil {
							b = implies(hc.boolTerm(hcond), b)
						}
						return b
					}()
					// the recorded fact holds on the paths through its program point
					if g := rec.state.guard; g != "" && g != "true" && g != st.guard {
						t = implies(g, t)
					}
					if t != "true" {
						ex.vc.cmds = append(ex.vc.cmds, fmt.Sprintf("(assert %s) ;INST %d", implies(st.guard, t), ex.pendingInst))
					}
					return
				}
				vt := hc.resolveType(hq.Vars[k].Type)
				for _, cd := range cands {
					if cd.T == nil || !types.Identical(vt.Underlying(), cd.T.Underlying()) {
						continue
					}
					hc.env[hq.Vars[k].Name] = cd
					rcr(k + 1)
				}
			}
			rcr(0)
		}
		ex.invLoopBlocks = saved
	}
}

// epochInfo: untouched components of an epoch resolve to the parent epoch's
// constant unless their key falls under one of the havocked prefixes.
type epochInfo struct {
	parent   int
	prefixes map[string]bool
	all      bool
	lazyOnly bool
	// merge epoch: the state is guard ? state of epoch mergeA : state of epoch mergeB
	isMerge        bool
	mergeA, mergeB int
	mergeG         string
}

func (ex *Exec) loopContract(fr *Frame, li *loopInfo) *LoopContract {
	if fr.ct == nil {
		if c := ex.db.funcs[funcName(fr.fn)]; c != nil {
			return c.Loops[li.ordinal]
		}
		return nil
	}
	return fr.ct.Loops[li.ordinal]
}

// rangeIndexInv recognises the range-over-slice/array/int loop shape of the
// SSA builder (hidden cell "rangeindex" starting at -1, incremented in the
// header and compared with a length computed before the loop) and returns
// the always-true bounds -1 <= rangeindex <= len.
func (ex *Exec) rangeIndexInv(fr *Frame, st *State, li *loopInfo) []string {
	var out []string
	ins := li.header.Instrs
	for i := 0; i+4 < len(ins)+1 && i+3 < len(ins); i++ {
		ld, ok1 := ins[i].(*ssa.UnOp)
		add, ok2 := ins[i+1].(*ssa.BinOp)
		sto, ok3 := ins[i+2].(*ssa.Store)
		cmp, ok4 := ins[i+3].(*ssa.BinOp)
		if !(ok1 && ok2 && ok3 && ok4) {
			continue
		}
		cell, ok := ld.X.(*ssa.Alloc)
		if !ok || cell.Comment != "rangeindex" || add.X != ld || add.Op != token.ADD || sto.Addr != cell || sto.Val != add || cmp.X != add || cmp.Op != token.LSS {
			continue
		}
		if _, isConst := add.Y.(*ssa.Const); !isConst {
			continue
		}
		nv, ok := fr.regs[cmp.Y]
		if !ok {
			if c, isC := cmp.Y.(*ssa.Const); isC {
				nv = ex.constVal(c)
			} else {
				continue
			}
		}
		cur, ok := st.cells[cell]
		if !ok {
			continue
		}
		x, n := sc(cur).T, sc(nv).T
		out = append(out, and(app("bvsle", bvInt(-1, 64), x), or(app("bvslt", x, n), eq(x, bvInt(-1, 64)))))
	}
	return out
}

func (ex *Exec) checkInvariants(fr *Frame, st *State, li *loopInfo, kind string) {
	for _, t := range ex.rangeIndexInv(fr, st, li) {
		ex.oblige(st, fr, fmt.Sprintf("%s(L%d)", kind, li.ordinal), token.NoPos, "range index within bounds", t)
	}
	lc := ex.loopContract(fr, li)
	if lc == nil {
		return
	}
	ex.invLoopBlocks = li.blocks
	defer func() { ex.invLoopBlocks = nil }()
	for _, inv := range lc.Invariants {
		if kind == "inv-init" && hasProp(inv.Props, "init-assumed") {
			// establishment on loop entry is an explicit, listed assumption
			ex.vc.Trust("loop " + fmt.Sprint(li.ordinal) + " of " + funcName(fr.fn) + ": initial establishment of the invariant is assumed, not proved: " + inv.Text)
			ex.abstracted["ASSUMED (not proved): initial establishment of loop invariant «"+inv.Text+"» in "+funcName(fr.fn)] = true
			continue
		}
		// one obligation per top-level conjunct (looking through pure functions
		// whose body is a conjunction), so a failure names the broken part
		for _, e := range flattenAnd(inv.Expr) {
			for _, part := range ex.splitClauseE(fr, st, nil, Clause{Expr: e, Text: exprText(e)}) {
				term := part.term
				if kind == "inv-init" {
					if sk, ok := ex.skolemOnly(fr, st, part); ok {
						term = sk
					}
				}
				if kind == "inv-pres" {
					// a universally quantified goal is skolemised here, and the
					// loop's quantified invariants (assumed at the header) are
					// instantiated at the skolem constants and their successors:
					// reslicing and i++ shift indices by one, which E-matching on
					// index arithmetic does not see
					if sk, ok := ex.skolemGoal(fr, st, li, lc, part); ok {
						term = sk
					}
				}
				o := ex.oblige(st, fr, fmt.Sprintf("%s(L%d)", kind, li.ordinal), token.NoPos, part.text, term)
				if o != nil && len(realProps(inv.Props)) > 0 {
					o.Props = realProps(inv.Props)
				}
			}
		}
	}
}

func realProps(ps []string) []string {
	var out []string
	for _, p := range ps {
		if p != "init-assumed" {
			out = append(out, p)
		}
	}
	return out
}

// quantShape recognises  forall vars :: body  and  cond ==> forall vars :: body.
func quantShape(e Expr) (cond Expr, q *EQuant) {
	if b, ok := e.(*EBin); ok && b.Op == "==>" {
		if qq, ok := b.Y.(*EQuant); ok && qq.Forall {
			return b.X, qq
		}
		return nil, nil
	}
	if qq, ok := e.(*EQuant); ok && qq.Forall {
		return nil, qq
	}
	return nil, nil
}

// skolemOnly replaces the bound variables of a universally quantified goal by
// fresh constants (the obligation stays equivalent).
func (ex *Exec) skolemOnly(fr *Frame, st *State, part invConjE) (string, bool) {
	cond, q := quantShape(part.expr)
	if q == nil {
		return "", false
	}
	c := part.ctx(st)
	for _, qv := range q.Vars {
		t := c.resolveType(qv.Type)
		if !isSingleLeaf(t) {
			return "", false
		}
		s := scalarSort(t)
		c.env[qv.Name] = TVal{V: Sc{ex.vc.Fresh("sk_"+qv.Name, s), s}, T: t}
	}
	goal := c.boolTerm(q.Body)
	if cond != nil {
		goal = implies(c.boolTerm(cond), goal)
	}
	return goal, true
}

func (ex *Exec) skolemGoal(fr *Frame, st *State, li *loopInfo, lc *LoopContract, part invConjE) (string, bool) {
	cond, q := quantShape(part.expr)
	if q == nil {
		return "", false
	}
	hdr := ex.loopHdr[li]
	if hdr == nil {
		return "", false
	}
	c := part.ctx(st)
	// skolem constants
	var sks []TVal
	for _, qv := range q.Vars {
		t := c.resolveType(qv.Type)
		if !isSingleLeaf(t) {
			return "", false
		}
		s := scalarSort(t)
		n := ex.vc.Fresh("sk_"+qv.Name, s)
		tv := TVal{V: Sc{n, s}, T: t}
		c.env[qv.Name] = tv
		sks = append(sks, tv)
	}
	goal := c.boolTerm(q.Body)
	if cond != nil {
		goal = implies(c.boolTerm(cond), goal)
	}
	// instantiate the header invariants
	var cands []TVal
	for _, sk := range sks {
		if isInteger(sk.T) {
			s := sc(sk.V)
			cands = append(cands, sk, TVal{V: Sc{app("bvadd", s.T, bvInt(1, s.S.Width())), s.S}, T: sk.T})
		} else {
			cands = append(cands, sk)
		}
	}
	for _, inv := range lc.Invariants {
		for _, e := range flattenAnd(inv.Expr) {
			for _, hp := range ex.splitClauseE(fr, hdr, nil, Clause{Expr: e, Text: exprText(e)}) {
				hcond, hq := quantShape(hp.expr)
				if hq == nil || len(hq.Vars) > 2 {
					continue
				}
				hc := hp.ctx(hdr)
				var rec func(k int)
				count := 0
				rec = func(k int) {
					if count > 32 {
						return
					}
					if k == len(hq.Vars) {
						count++
						t := func() (t string) {
							defer func() {
								if r := recover(); r != nil {
									t = "true"
								}
							}()
							b := hc.boolTerm(hq.Body)
							if hcond != nil {
								b = implies(hc.boolTerm(hcond), b)
							}
							return b
						}()
						ex.assume(st, t)
						return
					}
					vt := hc.resolveType(hq.Vars[k].Type)
					for _, cd := range cands {
						if !types.Identical(vt.Underlying(), cd.T.Underlying()) {
							continue
						}
						hc.env[hq.Vars[k].Name] = cd
						rec(k + 1)
					}
				}
				rec(0)
			}
		}
	}
	return goal, true
}

func (ex *Exec) assumeInvariants(fr *Frame, st *State, li *loopInfo) {
	for _, t := range ex.rangeIndexInv(fr, st, li) {
		ex.assume(st, t)
	}
	lc := ex.loopContract(fr, li)
	if lc == nil {
		return
	}
	ex.invLoopBlocks = li.blocks
	defer func() { ex.invLoopBlocks = nil }()
	for _, inv := range lc.Invariants {
		ex.assume(st, ex.evalBool(fr, st, fr.entry, nil, inv.Expr))
	}
}

// checkBackEdge: the loop contract's backedge clauses relate the state at a
// back edge to the state at the start of the same iteration (atiter).
func (ex *Exec) checkBackEdge(fr *Frame, st *State, li *loopInfo, from *ssa.BasicBlock) {
	lc := ex.loopContract(fr, li)
	if lc == nil || len(lc.BackEdge) == 0 {
		return
	}
	hdr := ex.loopHdr[li]
	if hdr == nil {
		return
	}
	saved := st.iterSnap
	st.iterSnap = hdr
	defer func() { st.iterSnap = saved }()
	pos := token.NoPos
	if n := len(from.Instrs); n > 0 {
		pos = from.Instrs[n-1].Pos()
	}
	for _, cl := range lc.BackEdge {
		for _, e := range flattenAnd(cl.Expr) {
			for _, part := range ex.splitClauseE(fr, st, nil, Clause{Expr: e, Text: exprText(e)}) {
				term := part.term
				if sk, ok := ex.skolemWithHyps(fr, st, part); ok {
					term = sk
				}
				o := ex.oblige(st, fr, fmt.Sprintf("backedge(L%d)", li.ordinal), pos, part.text, term)
				if o != nil && len(cl.Props) > 0 {
					o.Props = cl.Props
				}
			}
		}
	}
}
