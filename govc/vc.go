package main

// VC script: an ordered list of SMT-LIB commands shared by all obligations of
// one verified function. An obligation is checked against the prefix of the
// script that existed when it was emitted.

import (
	"fmt"
	"go/token"
	"regexp"
	"strings"
)

type Obl struct {
	Name   string
	Kind   string
	Func   string
	Props  []string
	Guard  string
	Goal   string
	Prefix int
	Pos    token.Position
	Src    string
	vc     *VC
	// filled by the solver stage
	Result  string // unsat (discharged) | sat | unknown | timeout
	Solver  string
	TimeS   float64
	Model   string
	Inputs  []namedTerm
	Vacuous bool
	// Assumed is set for obligations that are turned into assumptions on
	// purpose (listed in the trusted base instead of being proved).
	Tags map[string]string
}

type namedTerm struct {
	Name string
	Term string
	Sort Sort
}

type VC struct {
	Func     string
	cmds     []string
	declared map[string]bool
	n        int
	obls     []*Obl
	strLits  map[string]string
	trusted  map[string]bool // assumptions this VC depended on
	inputs   []namedTerm
}

func newVC(fn string) *VC {
	vc := &VC{Func: fn, declared: map[string]bool{}, strLits: map[string]string{}, trusted: map[string]bool{}}
	return vc
}

var identRe = regexp.MustCompile(`[^A-Za-z0-9_]`)

func sanitize(s string) string {
	s = identRe.ReplaceAllString(s, "_")
	if len(s) > 48 {
		s = s[:48]
	}
	if s == "" {
		s = "v"
	}
	return s
}

func (vc *VC) name(hint string) string {
	vc.n++
	return fmt.Sprintf("%s_%d", sanitize(hint), vc.n)
}

func (vc *VC) Fresh(hint string, s Sort) string {
	n := vc.name(hint)
	vc.cmds = append(vc.cmds, fmt.Sprintf("(declare-const %s %s)", n, s))
	return n
}

func (vc *VC) DeclareOnce(name string, s Sort) {
	if vc.declared[name] {
		return
	}
	vc.declared[name] = true
	vc.cmds = append(vc.cmds, fmt.Sprintf("(declare-const %s %s)", name, s))
}

var simpleRe = regexp.MustCompile(`^[A-Za-z0-9_#.]+$`)

func (vc *VC) Bind(hint string, s Sort, t string) string {
	if len(t) <= 24 || simpleRe.MatchString(t) {
		return t
	}
	n := vc.name(hint)
	vc.cmds = append(vc.cmds, fmt.Sprintf("(define-fun %s () %s %s)", n, s, t))
	return n
}

func (vc *VC) Assume(t string) {
	if t == "true" {
		return
	}
	vc.cmds = append(vc.cmds, "(assert "+t+")")
}

func (vc *VC) Raw(cmd string) { vc.cmds = append(vc.cmds, cmd) }

func (vc *VC) Trust(what string) { vc.trusted[what] = true }

const preamble = `(declare-sort Str 0)
(declare-fun Str_len (Str) (_ BitVec 64))
(declare-fun Str_at (Str (_ BitVec 64)) (_ BitVec 8))
(declare-const Str_empty Str)
(assert (= (Str_len Str_empty) #x0000000000000000))
(declare-fun Verify ((_ BitVec 256) (_ BitVec 64) (_ BitVec 512)) Bool)
(declare-fun SignF ((_ BitVec 64) (_ BitVec 256)) (_ BitVec 512))
(declare-fun BytesId ((Array (_ BitVec 64) (_ BitVec 8)) (_ BitVec 64) (_ BitVec 64)) (_ BitVec 64))
`

// Query renders the SMT-LIB text that decides the obligation: unsat means
// discharged.
func (o *Obl) Query(withModel bool) string {
	var b strings.Builder
	if withModel {
		b.WriteString("(set-option :produce-models true)\n")
	}
	b.WriteString("(set-logic ALL)\n")
	b.WriteString(preamble)
	for _, c := range o.vc.cmds[:o.Prefix] {
		b.WriteString(c)
		b.WriteByte('\n')
	}
	fmt.Fprintf(&b, "(assert %s)\n(assert (not %s))\n(check-sat)\n", o.Guard, o.Goal)
	if withModel && len(o.Inputs) > 0 {
		b.WriteString("(get-value (")
		for _, in := range o.Inputs {
			b.WriteString(in.Term)
			b.WriteByte(' ')
		}
		b.WriteString("))\n")
	}
	return b.String()
}

// ReachQuery: is the obligation's program point reachable under the
// assumptions (vacuity guard)? sat = reachable.
func (o *Obl) ReachQuery() string {
	var b strings.Builder
	b.WriteString("(set-logic ALL)\n")
	b.WriteString(preamble)
	for _, c := range o.vc.cmds[:o.Prefix] {
		b.WriteString(c)
		b.WriteByte('\n')
	}
	fmt.Fprintf(&b, "(assert %s)\n(check-sat)\n", o.Guard)
	return b.String()
}
