package main

// VC script: an ordered list of SMT-LIB commands shared by all obligations of
// one verified function. An obligation is checked against the prefix of the
// script that existed when it was emitted.

import (
	"sort"
	"fmt"
	"go/token"
	"os"
	"regexp"
	"strings"
	"sync"
)

type Obl struct {
	Name   string
	Kind   string
	Func   string
	Props  []string
	Guard  string
	Goal   string
	Prefix int
	Pos    token.Position
	Src    string
	vc     *VC
	// filled by the solver stage
	Result  string // unsat (discharged) | sat | unknown | timeout
	Solver  string
	TimeS   float64
	Model   string
	Inputs  []namedTerm
	Vacuous bool
	// Assumed is set for obligations that are turned into assumptions on
	// purpose (listed in the trusted base instead of being proved).
	Tags map[string]string
	// Extra commands / assertion appended to the query (known-finding classes)
	Extra       []string
	ExtraAssert string
	// DropQuantified renders the query without quantified hypotheses
	// (used only to search for candidate counterexamples that are then replayed).
	DropQuantified bool
	TimeoutS       int // per-obligation solver timeout override (0 = default)
	// InstTag: explicit instances of quantified hypotheses generated for this
	// obligation's skolem constants carry this tag; instances generated for
	// other obligations are left out of the query (dropping a hypothesis is
	// sound for proving)
	InstTag int
	// Focus renders the query with only those quantified hypotheses whose
	// trigger terms mention a symbol the goal depends on through definitions
	// (two rounds); dropping hypotheses is sound for proving.
	Focus bool
	// Lean keeps only the assumptions that speak exclusively about symbols in
	// the definitional cone of the goal and guard (plus parameters); every
	// other assumption is dropped (sound for proving, much smaller queries).
	Lean bool
	// Lambda renders total array definitions as lambda terms (z3 only).
	Lambda bool
	lockSnap    *State // state at the latest Lock() on the obligation's path (replay inputs may use atlock)
	provedQuery string // the rendering that was discharged (thorough tier: handed to a second solver)
	// FrameDetail: verdict text of a package-wide frame obligation
	FrameDetail string
}

type namedTerm struct {
	Name string
	Term string
	Sort Sort
}

type VC struct {
	Func     string
	cmds     []string
	declared map[string]bool
	n        int
	obls     []*Obl
	strLits  map[string]string
	trusted  map[string]bool // assumptions this VC depended on
	inputs   []namedTerm
	noBind   int
	defs     map[string]string // bound name -> defining term
	// normal exit of the verified function (vacuity guard)
	exitGuard  string
	exitPrefix int
}

func newVC(fn string) *VC {
	vc := &VC{Func: fn, declared: map[string]bool{}, strLits: map[string]string{}, trusted: map[string]bool{}}
	return vc
}

var identRe = regexp.MustCompile(`[^A-Za-z0-9_]`)

func sanitize(s string) string {
	s = identRe.ReplaceAllString(s, "_")
	if len(s) > 48 {
		s = s[:48]
	}
	if s == "" {
		s = "v"
	}
	return s
}

func (vc *VC) name(hint string) string {
	vc.n++
	return fmt.Sprintf("%s_%d", sanitize(hint), vc.n)
}

func (vc *VC) Fresh(hint string, s Sort) string {
	n := vc.name(hint)
	vc.cmds = append(vc.cmds, fmt.Sprintf("(declare-const %s %s)", n, s))
	return n
}

func (vc *VC) DeclareOnce(name string, s Sort) {
	if vc.declared[name] {
		return
	}
	vc.declared[name] = true
	vc.cmds = append(vc.cmds, fmt.Sprintf("(declare-const %s %s)", name, s))
}

var simpleRe = regexp.MustCompile(`^[A-Za-z0-9_#.]+$`)

func (vc *VC) Bind(hint string, s Sort, t string) string {
	if vc.noBind > 0 {
		return t // inside a quantifier: bound variables may occur in t
	}
	if len(t) <= 24 || simpleRe.MatchString(t) {
		return t
	}
	n := vc.name(hint)
	if vc.defs == nil {
		vc.defs = map[string]string{}
	}
	vc.defs[n] = t
	if s.IsArr() || (s != SBool && (strings.Contains(t, "(ite ") || strings.Contains(t, "(and ") || strings.Contains(t, "(or ") || strings.Contains(t, "(not "))) {
		// array-valued (heap) terms and terms with logical structure get an
		// opaque name so that they can occur in quantifier patterns
		vc.cmds = append(vc.cmds, fmt.Sprintf("(declare-const %s %s)", n, s), fmt.Sprintf("(assert (= %s %s))", n, t))
		return n
	}
	vc.cmds = append(vc.cmds, fmt.Sprintf("(define-fun %s () %s %s)", n, s, t))
	return n
}

func (vc *VC) Assume(t string) {
	if t == "true" {
		return
	}
	vc.cmds = append(vc.cmds, "(assert "+t+")")
}

func (vc *VC) Raw(cmd string) { vc.cmds = append(vc.cmds, cmd) }

func (vc *VC) Trust(what string) { vc.trusted[what] = true }

const preamble = `(declare-sort Str 0)
(declare-fun Str_len (Str) (_ BitVec 64))
(declare-fun Str_at (Str (_ BitVec 64)) (_ BitVec 8))
(declare-const Str_empty Str)
(assert (= (Str_len Str_empty) #x0000000000000000))
(declare-const ZeroStrArr (Array (_ BitVec 64) Str))
(assert (forall ((i (_ BitVec 64))) (! (= (select ZeroStrArr i) Str_empty) :pattern ((select ZeroStrArr i))))) ;ZSA
(declare-fun Verify ((_ BitVec 256) (_ BitVec 64) (_ BitVec 512)) Bool)
(declare-fun SignF ((_ BitVec 64) (_ BitVec 256)) (_ BitVec 512))
(declare-fun BytesId ((Array (_ BitVec 64) (_ BitVec 8)) (_ BitVec 64) (_ BitVec 64)) (_ BitVec 64))
`

// useLambda: render array definitions as lambdas in candidate-counterexample
// mode (experimental; slower than dropping them with the installed z3).
var useLambda = os.Getenv("GOVC_LAMBDA") == "1"

// narrowQuant: quantified hypotheses do not propagate relevance (smaller
// queries for obligations that time out with the full cone of influence).
var narrowQuant = os.Getenv("GOVC_NARROW") == "1"

var tokenRe = regexp.MustCompile(`[A-Za-z_$][A-Za-z0-9_$!.]*`)

// cmdName returns the symbol a declare/define command introduces.
func cmdName(c string) string {
	for _, p := range []string{"(declare-const ", "(declare-fun ", "(define-fun ", "(declare-sort "} {
		if strings.HasPrefix(c, p) {
			r := c[len(p):]
			if i := strings.IndexAny(r, " )"); i >= 0 {
				return r[:i]
			}
		}
	}
	return ""
}

// slice keeps the cone of influence of the seed text: definitions and
// declarations of symbols that are (transitively) mentioned, and assertions
// that share a symbol with what is kept. Dropping an assumption is sound for
// proving; a dropped assumption shares no symbol with the goal.
func sliceCmds(cmds []string, seeds ...string) []string {
	return sliceCmdsCached(nil, cmds, seeds...)
}

// tokCache memoises the declared-symbol tokens of command strings (the same
// commands are sliced once per obligation).
type tokCache struct {
	mu   sync.Mutex
	toks map[string][]string
}

var globalTok = &tokCache{toks: map[string][]string{}}

func allTokens(c string) []string {
	globalTok.mu.Lock()
	t, ok := globalTok.toks[c]
	globalTok.mu.Unlock()
	if ok {
		return t
	}
	seen := map[string]bool{}
	for _, x := range tokenRe.FindAllString(c, -1) {
		if !seen[x] {
			seen[x] = true
			t = append(t, x)
		}
	}
	globalTok.mu.Lock()
	globalTok.toks[c] = t
	globalTok.mu.Unlock()
	return t
}

func sliceCmdsCached(_ *VC, cmds []string, seeds ...string) []string {
	names := map[string]bool{}
	for _, c := range cmds {
		if n := cmdName(c); n != "" {
			names[n] = true
		}
	}
	toks := make([][]string, len(cmds))
	for i, c := range cmds {
		for _, t := range allTokens(c) {
			if names[t] {
				toks[i] = append(toks[i], t)
			}
		}
	}
	need := map[string]bool{}
	for _, s := range seeds {
		for _, t := range tokenRe.FindAllString(s, -1) {
			if names[t] {
				need[t] = true
			}
		}
	}
	// index: symbol -> commands mentioning it
	users := map[string][]int{}
	for i := range cmds {
		for _, t := range toks[i] {
			users[t] = append(users[t], i)
		}
	}
	keep := make([]bool, len(cmds))
	var work []string
	for t := range need {
		work = append(work, t)
	}
	include := func(i int) {
		if keep[i] {
			return
		}
		keep[i] = true
		if narrowQuant && strings.Contains(cmds[i], "(forall ") && cmdName(cmds[i]) == "" {
			// a quantified hypothesis is kept when it talks about something the
			// goal depends on, but it does not pull in further hypotheses
			return
		}
		for _, t := range toks[i] {
			if !need[t] {
				need[t] = true
				work = append(work, t)
			}
		}
	}
	for i, c := range cmds {
		if cmdName(c) == "" && len(toks[i]) == 0 && !strings.HasPrefix(c, "(assert true") {
			keep[i] = true // closed assertion
		}
	}
	for len(work) > 0 {
		t := work[len(work)-1]
		work = work[:len(work)-1]
		for _, i := range users[t] {
			c := cmds[i]
			if n := cmdName(c); n != "" {
				if n == t {
					include(i)
				}
				continue
			}
			include(i)
		}
	}
	if narrowQuant {
		// declarations / definitions of every symbol that a kept command
		// mentions (closure over definitions only)
		declOf := map[string]int{}
		for i, c := range cmds {
			if n := cmdName(c); n != "" {
				declOf[n] = i
			}
		}
		for changed := true; changed; {
			changed = false
			for i := range cmds {
				if !keep[i] {
					continue
				}
				for _, t := range toks[i] {
					if j, ok := declOf[t]; ok && !keep[j] {
						keep[j] = true
						changed = true
					}
				}
			}
		}
	}
	var out []string
	for i, c := range cmds {
		if keep[i] {
			out = append(out, c)
		}
	}
	return out
}

func pickLogic(body string) string {
	if strings.Contains(body, "(forall ") || strings.Contains(body, "(exists ") || strings.Contains(body, "FloatingPoint") || strings.Contains(body, "(declare-sort ") {
		return "ALL"
	}
	arr := strings.Contains(body, "(Array ")
	uf := strings.Contains(body, "(declare-fun ")
	switch {
	case arr && uf:
		return "QF_AUFBV"
	case arr:
		return "QF_ABV"
	case uf:
		return "QF_UFBV"
	}
	return "QF_BV"
}

func (o *Obl) render(withModel bool, tail string, seeds ...string) string {
	all := append(strings.Split(strings.TrimSpace(preamble), "\n"), o.vc.cmds[:o.Prefix]...)
	if len(o.Extra) > 0 {
		// extra commands may mention symbols that were declared lazily after
		// this obligation's prefix: pull their declarations in
		have := map[string]bool{}
		for _, c := range all {
			if n := cmdName(c); n != "" {
				have[n] = true
			}
		}
		for _, c := range o.Extra {
			if n := cmdName(c); n != "" {
				have[n] = true
			}
		}
		later := map[string]string{}
		for _, c := range o.vc.cmds[o.Prefix:] {
			if strings.HasPrefix(c, "(declare-const ") || strings.HasPrefix(c, "(declare-fun ") {
				later[cmdName(c)] = c
			}
		}
		for _, c := range append(append([]string{}, o.Extra...), tail) {
			for _, t := range tokenRe.FindAllString(c, -1) {
				if d, ok := later[t]; ok && !have[t] {
					have[t] = true
					all = append(all, d)
				}
			}
		}
	}
	all = append(all, o.Extra...)
	{
		mine := fmt.Sprintf(" ;INST %d", o.InstTag)
		kept := all[:0:0]
		for _, c := range all {
			if i := strings.LastIndex(c, " ;INST "); i >= 0 && c[i:] != mine {
				continue
			}
			kept = append(kept, c)
		}
		all = kept
	}
	if o.Lambda {
		// total array definitions (forall qi. A[qi] = body) become lambda
		// definitions of A (z3 only): selects beta-reduce instead of waiting for
		// quantifier instantiation. A is a fresh name constrained by nothing
		// else, so this is the same theory.
		lam := map[string]bool{}
		for _, c := range all {
			if i := strings.Index(c, ";LAMBDA "); i >= 0 {
				lam[strings.SplitN(c[i+8:], "|", 2)[0]] = true
			}
		}
		var out []string
		for _, c := range all {
			if i := strings.Index(c, ";LAMBDA "); i >= 0 {
				f := strings.SplitN(c[i+8:], "|", 3)
				out = append(out, fmt.Sprintf("(define-fun %s () %s (lambda ((qi (_ BitVec 64))) %s))", f[0], f[1], f[2]))
				continue
			}
			if strings.HasPrefix(c, "(declare-const ") && lam[cmdName(c)] {
				continue
			}
			out = append(out, c)
		}
		all = out
	}
	if o.Focus {
		all = focusQuantified(all, append(append([]string{}, seeds...), tail))
	}
	if o.Lean {
		all = leanCmds(all, append(append([]string{}, seeds...), tail))
	}
	if o.DropQuantified {
		// candidate-counterexample mode: quantified hypotheses are dropped (the
		// model is only believed if it replays on the real code)
		var qf []string
		lam := map[string]bool{}
		for _, c := range all {
			if i := strings.Index(c, ";LAMBDA "); i >= 0 && useLambda {
				lam[strings.SplitN(c[i+8:], "|", 2)[0]] = true
			}
		}
		for _, c := range all {
			if i := strings.Index(c, ";LAMBDA "); i >= 0 && useLambda {
				f := strings.SplitN(c[i+8:], "|", 3)
				qf = append(qf, fmt.Sprintf("(define-fun %s () %s (lambda ((qi (_ BitVec 64))) %s))", f[0], f[1], f[2]))
				continue
			}
			if strings.HasPrefix(c, "(declare-const ") && lam[cmdName(c)] {
				continue
			}
			if strings.HasPrefix(c, "(assert ") && strings.Contains(c, "(forall ") && !strings.HasSuffix(c, " ;ZSA") {
				continue
			}
			qf = append(qf, c)
		}
		all = qf
	}
	kept := sliceCmds(all, seeds...)
	body := strings.Join(kept, "\n") + "\n" + tail
	var b strings.Builder
	if withModel {
		b.WriteString("(set-option :produce-models true)\n")
	}
	b.WriteString("(set-logic " + pickLogic(body) + ")\n")
	b.WriteString(body)
	if withModel && len(o.Inputs) > 0 {
		var ins []string
		declared := map[string]bool{}
		for _, c := range kept {
			declared[cmdName(c)] = true
		}
		for _, in := range o.Inputs {
			if declared[in.Term] {
				ins = append(ins, in.Term)
			}
		}
		if len(ins) > 0 {
			b.WriteString("(get-value (" + strings.Join(ins, " ") + "))\n")
		}
	}
	return b.String()
}

// Query renders the SMT-LIB text that decides the obligation: unsat means
// discharged.
func (o *Obl) Query(withModel bool) string {
	tail := fmt.Sprintf("(assert %s)\n(assert (not %s))\n%s(check-sat)\n", o.Guard, o.Goal, o.ExtraAssert)
	return o.render(withModel, tail, o.Guard, o.Goal, o.ExtraAssert)
}

// ReachQuery: is the obligation's program point reachable under the
// assumptions (vacuity guard)? sat = reachable. Not sliced by the goal: all
// assumptions take part.
func (o *Obl) ReachQuery() string {
	var b strings.Builder
	all := append(strings.Split(strings.TrimSpace(preamble), "\n"), o.vc.cmds[:o.Prefix]...)
	body := strings.Join(all, "\n") + "\n" + fmt.Sprintf("(assert %s)\n(check-sat)\n", o.Guard)
	b.WriteString("(set-logic " + pickLogic(body) + ")\n")
	b.WriteString(body)
	return b.String()
}

var patternRe = regexp.MustCompile(`:pattern \(`)

// patternTokens returns the declared symbols that occur inside the :pattern
// attributes of a command (all symbols of the command when it has none).
func patternTokens(c string, names map[string]bool) []string {
	var text strings.Builder
	locs := patternRe.FindAllStringIndex(c, -1)
	if len(locs) == 0 {
		text.WriteString(c)
	}
	for _, l := range locs {
		depth := 0
		for i := l[1] - 1; i < len(c); i++ {
			if c[i] == '(' {
				depth++
			} else if c[i] == ')' {
				depth--
				if depth == 0 {
					text.WriteString(c[l[1]-1 : i+1])
					text.WriteByte(' ')
					break
				}
			}
		}
	}
	var out []string
	for _, t := range tokenRe.FindAllString(text.String(), -1) {
		if names[t] && !strings.HasPrefix(t, "p_") {
			out = append(out, t)
		}
	}
	return out
}

func focusQuantified(cmds []string, seeds []string) []string {
	names := map[string]bool{}
	for _, c := range cmds {
		if n := cmdName(c); n != "" {
			names[n] = true
		}
	}
	// definitional edges: define-fun N ... and declare-const N followed by (assert (= N t))
	def := map[string][]string{}
	for _, c := range cmds {
		if strings.HasPrefix(c, "(define-fun ") {
			n := cmdName(c)
			for _, t := range allTokens(c) {
				if names[t] && t != n {
					def[n] = append(def[n], t)
				}
			}
		} else if strings.HasPrefix(c, "(assert (= ") {
			r := c[len("(assert (= "):]
			i := strings.IndexAny(r, " )")
			if i > 0 && names[r[:i]] {
				n := r[:i]
				for _, t := range allTokens(c) {
					if names[t] && t != n {
						def[n] = append(def[n], t)
					}
				}
			}
		}
	}
	dep := map[string]bool{}
	var close func(t string)
	close = func(t string) {
		if dep[t] {
			return
		}
		dep[t] = true
		for _, u := range def[t] {
			close(u)
		}
	}
	for _, s := range seeds {
		for _, t := range tokenRe.FindAllString(s, -1) {
			if names[t] {
				close(t)
			}
		}
	}
	isQ := func(c string) bool {
		return strings.HasPrefix(c, "(assert ") && strings.Contains(c, "(forall ") && cmdName(c) == ""
	}
	keep := make([]bool, len(cmds))
	for round := 0; round < 2; round++ {
		var added []string
		for i, c := range cmds {
			if keep[i] || !isQ(c) {
				continue
			}
			for _, t := range patternTokens(c, names) {
				if dep[t] {
					keep[i] = true
					break
				}
			}
			if keep[i] {
				for _, t := range allTokens(c) {
					if names[t] && !strings.HasPrefix(t, "p_") {
						added = append(added, t)
					}
				}
			}
		}
		for _, t := range added {
			close(t)
		}
	}
	var out []string
	for i, c := range cmds {
		if isQ(c) && !keep[i] {
			continue
		}
		out = append(out, c)
	}
	return out
}

func leanCmds(cmds []string, seeds []string) []string {
	names := map[string]bool{}
	for _, c := range cmds {
		if n := cmdName(c); n != "" {
			names[n] = true
		}
	}
	def := map[string][]string{}
	isDefAssert := map[int]string{}
	for i, c := range cmds {
		if strings.HasPrefix(c, "(define-fun ") {
			n := cmdName(c)
			for _, t := range allTokens(c) {
				if names[t] && t != n {
					def[n] = append(def[n], t)
				}
			}
		} else if strings.HasPrefix(c, "(assert (= ") {
			r := c[len("(assert (= "):]
			j := strings.IndexAny(r, " )")
			if j > 0 && names[r[:j]] {
				n := r[:j]
				isDefAssert[i] = n
				for _, t := range allTokens(c) {
					if names[t] && t != n {
						def[n] = append(def[n], t)
					}
				}
			}
		}
	}
	dep := map[string]bool{}
	var close func(t string)
	close = func(t string) {
		if dep[t] {
			return
		}
		dep[t] = true
		for _, u := range def[t] {
			close(u)
		}
	}
	for _, sd := range seeds {
		for _, t := range tokenRe.FindAllString(sd, -1) {
			if names[t] {
				close(t)
			}
		}
	}
	var out []string
	for i, c := range cmds {
		if n := cmdName(c); n != "" {
			if dep[n] || strings.HasPrefix(c, "(declare-sort") || strings.HasPrefix(c, "(declare-fun") {
				out = append(out, c)
			}
			continue
		}
		if n, ok := isDefAssert[i]; ok {
			if dep[n] {
				out = append(out, c)
			}
			continue
		}
		keep := true
		for _, t := range allTokens(c) {
			if names[t] && !dep[t] && !strings.HasPrefix(t, "p_") {
				// declared functions (uninterpreted) are neutral
				keep = false
				break
			}
		}
		if keep {
			out = append(out, c)
		}
	}
	// parameters and function symbols mentioned by kept commands need declarations
	have := map[string]bool{}
	for _, c := range out {
		if n := cmdName(c); n != "" {
			have[n] = true
		}
	}
	var pre []string
	for _, c := range cmds {
		if n := cmdName(c); n != "" && !have[n] && strings.HasPrefix(n, "p_") {
			pre = append(pre, c)
			have[n] = true
		}
	}
	// keep original order: declarations of parameters come first in cmds anyway
	res := make([]string, 0, len(out)+len(pre))
	idx := map[string]int{}
	for i, c := range cmds {
		idx[c] = i
	}
	res = append(res, pre...)
	res = append(res, out...)
	sort.SliceStable(res, func(a, b int) bool { return idx[res[a]] < idx[res[b]] })
	return res
}
