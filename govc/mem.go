package main

// Memory model: Burstall-Bornat components keyed by root type and leaf path,
// local cells as value trees, structured addresses.

import (
	"os"
	"fmt"
	"go/types"
	"sort"

	"golang.org/x/tools/go/ssa"
)

type deferEntry struct {
	guard string
	call  *ssa.Defer
	frame *Frame
}

type State struct {
	guard  string
	cells  map[*ssa.Alloc]Val
	globs  map[*ssa.Global]Val
	heap   map[string]string // component key -> current term
	epoch  int               // which family of "untouched" constants missing components resolve to
	alloc  string            // (Array Ref Bool): allocated refs
	locks  map[string]string // lock key -> Bool term (held)
	ghost  map[string]Val
	defers []deferEntry
	// lockSnap is the state right after the most recent Lock() on this path
	// (havoc + invariant); atlock(e) evaluates e there
	lockSnap *State
	// iterSnap is the loop-header state of the iteration whose back edge is
	// being checked (set only while backedge clauses are evaluated)
	iterSnap *State
}

func (s *State) clone() *State {
	n := &State{guard: s.guard, epoch: s.epoch, alloc: s.alloc, lockSnap: s.lockSnap}
	n.cells = make(map[*ssa.Alloc]Val, len(s.cells))
	for k, v := range s.cells {
		n.cells[k] = v
	}
	n.globs = make(map[*ssa.Global]Val, len(s.globs))
	for k, v := range s.globs {
		n.globs[k] = v
	}
	n.heap = make(map[string]string, len(s.heap))
	for k, v := range s.heap {
		n.heap[k] = v
	}
	n.locks = make(map[string]string, len(s.locks))
	for k, v := range s.locks {
		n.locks[k] = v
	}
	n.ghost = make(map[string]Val, len(s.ghost))
	for k, v := range s.ghost {
		n.ghost[k] = v
	}
	n.defers = append([]deferEntry{}, s.defers...)
	return n
}

// compInfo records every heap component ever mentioned, with its sort.
type compInfo struct {
	key  string
	sort Sort
}

// comp returns the current term of a heap component in st.
func (ex *Exec) comp(st *State, key string, s Sort) string {
	if t, ok := st.heap[key]; ok {
		return t
	}
	if _, ok := ex.comps[key]; !ok {
		ex.comps[key] = compInfo{key, s}
	}
	return ex.resolveAt(key, s, st.epoch)
}

// resolveAt names the value a component that was never touched on the path
// has in a state of epoch e: the constant of the nearest enclosing epoch that
// may have changed it. A merge epoch (two paths with different histories)
// resolves to the common name when both sides agree and to their ite otherwise.
func (ex *Exec) resolveAt(key string, s Sort, e int) string {
	for {
		info, ok := ex.epochInfo[e]
		if !ok {
			break
		}
		if info.isMerge {
			ta, tb := ex.resolveAt(key, s, info.mergeA), ex.resolveAt(key, s, info.mergeB)
			if ta == tb {
				return ta
			}
			name := fmt.Sprintf("H%d_%s", e, key)
			if !ex.vc.declared[name] {
				ex.vc.DeclareOnce(name, s)
				ex.vc.cmds = append(ex.vc.cmds, fmt.Sprintf("(assert (= %s (ite %s %s %s)))", name, info.mergeG, ta, tb))
			}
			return name
		}
		if info.all {
			break
		}
		hit := false
		for p := range info.prefixes {
			if hasPrefix(key, p) {
				hit = true
				break
			}
		}
		if hit {
			break
		}
		e = info.parent
	}
	name := fmt.Sprintf("H%d_%s", e, key)
	ex.vc.DeclareOnce(name, s)
	return name
}

func rootKey(kind AKind, root types.Type) string {
	if kind == AElems {
		return "M_" + typeKey(root)
	}
	return "O_" + typeKey(root)
}

// heapTree builds the tree of current component terms for a root type.
func (ex *Exec) heapTree(st *State, kind AKind, root types.Type) Val {
	wrap := func(s Sort) Sort { return ArrS(SRef, s) }
	if kind == AElems {
		wrap = func(s Sort) Sort { return ArrS(SRef, ArrS(BV(64), s)) }
	}
	rk := rootKey(kind, root)
	return mkVal(root, rk, wrap, func(path string, s Sort) string {
		return ex.comp(st, path, s)
	})
}

// setHeapTree writes back the terms of a tree built by heapTree.
func (ex *Exec) setHeapTree(st *State, kind AKind, root types.Type, tree Val) {
	wrap := func(s Sort) Sort { return ArrS(SRef, s) }
	if kind == AElems {
		wrap = func(s Sort) Sort { return ArrS(SRef, ArrS(BV(64), s)) }
	}
	rk := rootKey(kind, root)
	ls := leavesOf(tree)
	i := 0
	mkVal(root, rk, wrap, func(path string, s Sort) string {
		l := ls[i]
		i++
		ex.setComp(st, path, s, l.T)
		return l.T
	})
}

func selAll(t string, idxs []string) string {
	for _, i := range idxs {
		t = sel(t, i)
	}
	return t
}

func peel(s Sort, n int) Sort {
	for i := 0; i < n; i++ {
		_, s = s.ArrParts()
	}
	return s
}

func nestedStore(l string, idxs []string, v string) string {
	if len(idxs) == 0 {
		return v
	}
	return sto(l, idxs[0], nestedStore(sel(l, idxs[0]), idxs[1:], v))
}

// packedByte extracts byte idx (a BV64 term) of a packed array leaf.
func packedByte(l Sc, idx string) string {
	w := l.S.Width()
	if k, ok := constBV(idx); ok {
		if int(k)*8+7 < w {
			return extract(int(k)*8+7, int(k)*8, l.T)
		}
	}
	// byte i lives at bits [8i+7 : 8i]
	sh := app("bvmul", resize(idx, 64, w, false), bvInt(8, w))
	return extract(7, 0, app("bvlshr", l.T, sh))
}

func setPackedByte(l Sc, idx string, b string) string {
	w := l.S.Width()
	if k, ok := constBV(idx); ok && int(k)*8+7 < w {
		lo, hi := int(k)*8, int(k)*8+7
		parts := []string{}
		if hi < w-1 {
			parts = append(parts, extract(w-1, hi+1, l.T))
		}
		parts = append(parts, b)
		if lo > 0 {
			parts = append(parts, extract(lo-1, 0, l.T))
		}
		if len(parts) == 1 {
			return parts[0]
		}
		return app("concat", parts...)
	}
	sh := app("bvmul", resize(idx, 64, w, false), bvInt(8, w))
	mask := app("bvnot", app("bvshl", bvInt(255, w), sh))
	return app("bvor", app("bvand", l.T, mask), app("bvshl", zext(w-8, b), sh))
}

// constBV recognises #x / #b literals.
func constBV(t string) (uint64, bool) {
	if len(t) > 2 && t[0] == '#' && (t[1] == 'x' || t[1] == 'b') {
		base := 16
		if t[1] == 'b' {
			base = 2
		}
		if len(t) > 18 && base == 16 {
			return 0, false
		}
		var v uint64
		for _, c := range t[2:] {
			var d uint64
			switch {
			case c >= '0' && c <= '9':
				d = uint64(c - '0')
			case c >= 'a' && c <= 'f':
				d = uint64(c-'a') + 10
			default:
				return 0, false
			}
			v = v*uint64(base) + d
		}
		return v, true
	}
	return 0, false
}

func navRead(tree Val, t types.Type, path []PathEl, idxs []string) Val {
	for n, p := range path {
		if !p.IsIdx {
			tree = tree.(*Agg).F[p.Field]
			t = t.Underlying().(*types.Struct).Field(p.Field).Type()
			continue
		}
		switch kindOf(t) {
		case KArr:
			tree = tree.(*Arr).E
			idxs = append(append([]string{}, idxs...), p.Idx)
			t = t.Underlying().(*types.Array).Elem()
		case KPacked:
			if n != len(path)-1 {
				panic("navRead: path continues below a packed byte")
			}
			l := tree.(Sc)
			cur := Sc{selAll(l.T, idxs), peel(l.S, len(idxs))}
			return Sc{packedByte(cur, p.Idx), BV(8)}
		default:
			panic("navRead: index into " + t.String())
		}
	}
	return leafMap(tree, func(l Sc) Sc { return Sc{selAll(l.T, idxs), peel(l.S, len(idxs))} })
}

func navWrite(tree Val, t types.Type, path []PathEl, idxs []string, nv Val) Val {
	if len(path) == 0 {
		return leafZip(tree, nv, func(l, x Sc) Sc { return Sc{nestedStore(l.T, idxs, x.T), l.S} })
	}
	p := path[0]
	if !p.IsIdx {
		a := tree.(*Agg)
		n := &Agg{F: append([]Val{}, a.F...)}
		ft := t.Underlying().(*types.Struct).Field(p.Field).Type()
		n.F[p.Field] = navWrite(a.F[p.Field], ft, path[1:], idxs, nv)
		return n
	}
	switch kindOf(t) {
	case KArr:
		et := t.Underlying().(*types.Array).Elem()
		return &Arr{navWrite(tree.(*Arr).E, et, path[1:], append(append([]string{}, idxs...), p.Idx), nv)}
	case KPacked:
		if len(path) != 1 {
			panic("navWrite: path continues below a packed byte")
		}
		l := tree.(Sc)
		cur := Sc{selAll(l.T, idxs), peel(l.S, len(idxs))}
		upd := setPackedByte(cur, p.Idx, sc(nv).T)
		return Sc{nestedStore(l.T, idxs, upd), l.S}
	}
	panic("navWrite: index into " + t.String())
}

// opaqueOnPath reports whether the path enters a type that is modelled as an
// opaque handle (its fields are not tracked).
func (a *Addr) opaqueOnPath() bool {
	if len(a.Path) == 0 {
		return false
	}
	var t types.Type
	switch a.Kind {
	case AElems:
		t = a.Root
		if k := kindOf(t); k == KOpaque || k == KTime {
			return len(a.Path) > 1
		}
		p := a.Path[1:]
		for _, el := range p {
			if k := kindOf(t); k == KOpaque || k == KTime {
				return true
			}
			if el.IsIdx {
				if kindOf(t) == KPacked {
					return false
				}
				t = t.Underlying().(*types.Array).Elem()
			} else {
				t = t.Underlying().(*types.Struct).Field(el.Field).Type()
			}
		}
		return false
	default:
		t = a.rootValueType()
	}
	for _, el := range a.Path {
		if k := kindOf(t); k == KOpaque || k == KTime {
			return true
		}
		if el.IsIdx {
			if kindOf(t) == KPacked {
				return false
			}
			t = t.Underlying().(*types.Array).Elem()
		} else {
			t = t.Underlying().(*types.Struct).Field(el.Field).Type()
		}
	}
	return false
}

// load reads the value at address a in state st.
func (ex *Exec) load(st *State, a *Addr) Val {
	if a.opaqueOnPath() {
		ex.vc.Trust("fields of opaque library types are not tracked (reads yield unconstrained values)")
		t := a.typeAtOpaque()
		v := ex.freshVal(t, "opq")
		if ex.nonNilOpaqueField(a) {
			if l, ok := v.(Sc); ok && l.S == SRef {
				ex.vc.Assume(not(eq(l.T, z64())))
				ex.vc.Trust("net/http guarantees non-nil Request.Body, Request.URL and Response.Body")
			}
		}
		return v
	}
	switch a.Kind {
	case ACell:
		v, ok := st.cells[a.Cell]
		if !ok {
			panic("load: unknown cell " + a.Cell.Comment)
		}
		if len(a.Path) == 0 {
			return v
		}
		return navRead(v, a.rootValueType(), a.Path, nil)
	case AGlobal:
		v := ex.globalVal(st, a.Glob)
		if len(a.Path) == 0 {
			return v
		}
		return navRead(v, a.rootValueType(), a.Path, nil)
	case AHeap:
		tree := ex.heapTree(st, AHeap, a.Root)
		return navRead(tree, a.Root, a.Path, []string{a.Ref})
	case AElems:
		tree := ex.heapTree(st, AElems, a.Root)
		if len(a.Path) == 0 {
			// whole array behind a *[N]T
			return &Arr{leafMap(tree, func(l Sc) Sc { return Sc{sel(l.T, a.Ref), peel(l.S, 1)} })}
		}
		if !a.Path[0].IsIdx {
			panic("load: element memory addressed by a field")
		}
		return navRead(tree, a.Root, a.Path[1:], []string{a.Ref, a.Path[0].Idx})
	}
	panic("load")
}

// store writes v at address a.
func (ex *Exec) store(st *State, a *Addr, v Val) {
	if a.opaqueOnPath() {
		return
	}
	switch a.Kind {
	case ACell:
		if len(a.Path) == 0 {
			st.cells[a.Cell] = v
			return
		}
		st.cells[a.Cell] = ex.bindVal(a.Cell.Comment, navWrite(st.cells[a.Cell], a.rootValueType(), a.Path, nil, v))
	case AGlobal:
		if len(a.Path) == 0 {
			st.globs[a.Glob] = v
			return
		}
		st.globs[a.Glob] = navWrite(ex.globalVal(st, a.Glob), a.rootValueType(), a.Path, nil, v)
	case AHeap:
		tree := ex.heapTree(st, AHeap, a.Root)
		ex.setHeapTree(st, AHeap, a.Root, navWrite(tree, a.Root, a.Path, []string{a.Ref}, v))
	case AElems:
		tree := ex.heapTree(st, AElems, a.Root)
		if len(a.Path) == 0 {
			av := v.(*Arr)
			nt := leafZip(tree, av.E, func(l, x Sc) Sc { return Sc{sto(l.T, a.Ref, x.T), l.S} })
			ex.setHeapTree(st, AElems, a.Root, nt)
			return
		}
		nt := navWrite(tree, a.Root, a.Path[1:], []string{a.Ref, a.Path[0].Idx}, v)
		ex.setHeapTree(st, AElems, a.Root, nt)
	}
}

// bindVal binds every long leaf term of a (non exec-only) value to a name.
func (ex *Exec) bindVal(hint string, v Val) Val {
	if isExecOnly(v) {
		return v
	}
	return leafMap(v, func(l Sc) Sc { return Sc{ex.vc.Bind(hint, l.S, l.T), l.S} })
}

func (ex *Exec) globalVal(st *State, g *ssa.Global) Val {
	if v, ok := st.globs[g]; ok {
		return v
	}
	if g.Pkg.Pkg.Path() == "io" && g.Name() == "EOF" {
		ex.vc.Trust("io.EOF is never reassigned")
		return Sc{ex.ioEOF(), SRef}
	}
	t := g.Type().Underlying().(*types.Pointer).Elem()
	name := fmt.Sprintf("G%d_%s_%s", st.epoch, g.Pkg.Pkg.Name(), g.Name())
	if kindOf(t) == KScalar && ex.ld.neverWritten(g) {
		// a scalar package variable that no function of the module stores to or
		// takes the address of (only its initialiser sets it) has one value
		// for the whole execution
		name = fmt.Sprintf("GK_%s_%s", g.Pkg.Pkg.Name(), g.Name())
	}
	// a package variable pinned by a globalinit clause (initialiser fixed, no
	// writer anywhere in the module: proved by that clause) is a constant with
	// the listed content
	if ex.db != nil {
		for _, fc := range ex.db.frames {
			if fc.Kind == "globalinit" && fc.Target == g.Pkg.Pkg.Name()+"."+g.Name() && kindOf(t) == KSlice {
				cname := "GC_" + g.Pkg.Pkg.Name() + "_" + g.Name()
				first := !ex.vc.declared[cname+"_ref"]
				v := mkVal(t, cname, nil, func(path string, s Sort) string {
					ex.vc.DeclareOnce(path, s)
					return path
				})
				if first {
					sv := ex.viewSlice(v, t)
					ex.vc.Assume(and(not(eq(sv.ref, z64())), eq(sv.off, z64()), eq(sv.ln, bvInt(int64(len(fc.Allowed)), 64)), app("bvsle", sv.ln, sv.cp)))
					ex.vc.Trust("package variable " + fc.Target + " holds its initialiser (pinned by the globalinit clause of the same property)")
				}
				// its elements are the literals, in every state (nothing writes them)
				sv := ex.viewSlice(v, t)
				if kindOf(sv.elemT) == KStr {
					m := sc(ex.heapTree(st, AElems, sv.elemT)).T
					for k, lit := range fc.Allowed {
						ex.assume(st, eq(sel(sel(m, sv.ref), bvInt(int64(k), 64)), ex.strLit(lit)))
					}
				}
				return v
			}
		}
	}
	v := mkVal(t, name, nil, func(path string, s Sort) string {
		ex.vc.DeclareOnce(path, s)
		return path
	})
	return v
}

// havocAllHeap forgets every heap component (used when an unknown effect may
// have written anywhere). Fresh refs that have not escaped keep their content.
func (ex *Exec) havocAllHeap(st *State, why string) {
	old := st.clone()
	ex.epochs++
	ex.epochInfo[ex.epochs] = epochInfo{parent: st.epoch, all: true}
	st.epoch = ex.epochs
	st.heap = map[string]string{}
	// preserve content of local, non-escaped allocations
	keys := make([]string, 0, len(ex.comps))
	for k := range ex.comps {
		keys = append(keys, k)
	}
	sort.Strings(keys)
	for _, r := range ex.localRefs {
		if ex.escaped[r] {
			continue
		}
		for _, k := range keys {
			ci := ex.comps[k]
			if _, touched := old.heap[k]; !touched {
				continue
			}
			ex.vc.Assume(eq(sel(ex.comp(st, k, ci.sort), r), sel(ex.comp(old, k, ci.sort), r)))
		}
	}
	// globals too
	st.globs = map[*ssa.Global]Val{}
	if os.Getenv("GOVC_DEBUG") != "" {
		fmt.Fprintf(os.Stderr, "havocAllHeap (epoch %d): %s\n", ex.epochs, why)
	}
}

var nonNilOpaque = map[string]bool{
	"net/http.Response.Body": true, "net/http.Request.Body": true, "net/http.Request.URL": true, "net/http.Request.Header": true,
}

// nonNilOpaqueField: the address is a documented never-nil field of an opaque
// library struct.
func (ex *Exec) nonNilOpaqueField(a *Addr) bool {
	if a.Kind != AHeap || len(a.Path) != 1 || a.Path[0].IsIdx {
		return false
	}
	st, ok := a.Root.Underlying().(*types.Struct)
	if !ok {
		return false
	}
	return nonNilOpaque[namedString(a.Root)+"."+st.Field(a.Path[0].Field).Name()]
}
