package main

// Property checks: select the functions and lemmas charged to a property,
// generate and discharge their obligations, apply the known-findings file,
// write the evidence file and report violations.

import (
	"crypto/sha1"
	"encoding/json"
	"flag"
	"fmt"
	"os"
	"path/filepath"
	"runtime"
	"runtime/pprof"
	"sort"
	"strconv"
	"strings"
	"sync"
	"time"

	"golang.org/x/tools/go/ssa"
)

type knownFinding struct {
	Prop       string
	Obligation string // full name, or a prefix ending in '*'
	Class      string // contract-language predicate over the function's inputs ("" = any input)
	What       string
}

type fixedEntry struct {
	Prop, Commit, What string
}

func readKnownFindings(path string) ([]knownFinding, []fixedEntry, error) {
	data, err := os.ReadFile(path)
	if os.IsNotExist(err) {
		return nil, nil, nil
	}
	if err != nil {
		return nil, nil, err
	}
	var kf []knownFinding
	var fx []fixedEntry
	for _, line := range strings.Split(string(data), "\n") {
		line = strings.TrimSpace(line)
		if line == "" || strings.HasPrefix(line, "#") {
			continue
		}
		switch {
		case strings.HasPrefix(line, "finding:"):
			// finding: property=C02 obligation=«...» class=«...» what=...
			rest := strings.TrimSpace(strings.TrimPrefix(line, "finding:"))
			f := knownFinding{}
			f.Prop = fieldOf(rest, "property=")
			f.Obligation = delimited(rest, "obligation=")
			f.Class = delimited(rest, "class=")
			f.What = strings.TrimSpace(afterKey(rest, "what="))
			kf = append(kf, f)
		case strings.HasPrefix(line, "fixed:"):
			rest := strings.TrimSpace(strings.TrimPrefix(line, "fixed:"))
			fs := strings.Fields(rest)
			e := fixedEntry{}
			if len(fs) >= 2 {
				e.Prop = strings.TrimPrefix(fs[0], "property=")
				e.Commit = fs[1]
				e.What = strings.Join(fs[2:], " ")
			}
			fx = append(fx, e)
		}
	}
	return kf, fx, nil
}

func fieldOf(s, key string) string {
	i := strings.Index(s, key)
	if i < 0 {
		return ""
	}
	r := s[i+len(key):]
	if j := strings.IndexAny(r, " \t"); j >= 0 {
		r = r[:j]
	}
	return r
}

// delimited reads key={...} with balanced braces.
func delimited(s, key string) string {
	i := strings.Index(s, key+"{")
	if i < 0 {
		return ""
	}
	r := s[i+len(key)+1:]
	depth := 1
	for j, c := range r {
		switch c {
		case '{':
			depth++
		case '}':
			depth--
			if depth == 0 {
				return r[:j]
			}
		}
	}
	return r
}

func afterKey(s, key string) string {
	i := strings.Index(s, key)
	if i < 0 {
		return ""
	}
	return s[i+len(key):]
}

type funcReport struct {
	Name        string   `json:"function"`
	Config      string   `json:"config"`
	Obligations int      `json:"obligations"`
	Discharged  int      `json:"discharged"`
	Abstracted  []string `json:"abstracted,omitempty"`
	Error       string   `json:"error,omitempty"`
}

type oblSample struct {
	Name   string  `json:"obligation"`
	Result string  `json:"result"`
	Solver string  `json:"solver"`
	TimeS  float64 `json:"solver_s"`
	SMTLen int     `json:"smt_bytes"`
}

func hasProp(ps []string, p string) bool {
	for _, x := range ps {
		if x == p {
			return true
		}
	}
	return false
}

type checkRun struct {
	prop, tier string
	repo       string
	verifDir   string
	timeout    int
	confirm    bool
	obls       []*Obl
	oblExec    map[*Obl]*Exec
	oblFrame   map[*Obl]*Frame
	funcs      []funcReport
	trusted    map[string]bool
	abstracted map[string]bool
	genErrors  []string
	contracts  map[string]bool
	restricted []map[string]string
}

func (cr *checkRun) generate(config string, tags string) {
	ld, err := Load(cr.repo, tags, "./glow", "./server", "./client")
	if err != nil {
		cr.genErrors = append(cr.genErrors, fmt.Sprintf("[%s] load: %v", config, err))
		return
	}
	db, err := loadContracts(cr.repo, pkgList)
	if err != nil {
		cr.genErrors = append(cr.genErrors, fmt.Sprintf("[%s] contracts: %v", config, err))
		return
	}
	var names []string
	for n, ct := range db.funcs {
		if hasProp(ct.Props, cr.prop) || hasProp(ct.Safety, cr.prop) || clauseHasProp(ct, cr.prop) {
			names = append(names, n)
		}
	}
	sort.Strings(names)
	var anyFn *ssa.Function
	for _, n := range names {
		ct := db.funcs[n]
		if only, ok := ct.Opts["config"]; ok && only != config {
			continue
		}
		fn := ld.funcs[n]
		if fn == nil {
			if ct.Opts["optional"] == "true" {
				continue
			}
			cr.genErrors = append(cr.genErrors, fmt.Sprintf("[%s] contract for %s: no such function in the tree (contract out of date)", config, n))
			continue
		}
		anyFn = fn
		vc, ex, err := VerifyFunc(ld, db, fn, ct, verifyOpts{lockChecks: ct.Opts["nolocks"] != "true"})
		fr := funcReport{Name: n, Config: config}
		if err != nil {
			fr.Error = err.Error()
			cr.genErrors = append(cr.genErrors, fmt.Sprintf("[%s] %s: %v", config, n, err))
		}
		if vc != nil {
			for _, o := range vc.obls {
				ps := o.Props
				if isSafetyKind(o.Kind) || strings.HasPrefix(o.Kind, "lock-") || strings.HasPrefix(o.Kind, "guarded") || o.Kind == "noblock-under-lock" || o.Kind == "blocking" {
					if len(ct.Safety) > 0 {
						ps = ct.Safety
					}
				}
				if strings.HasPrefix(o.Kind, "pre(") {
					// a callee precondition protects both the functional claim and
					// the callee's runtime safety
					ps = append(append([]string{}, ct.Props...), ct.Safety...)
				}
				if !hasProp(ps, cr.prop) {
					continue
				}
				o.Name = "[" + config + "] " + o.Name
				cr.obls = append(cr.obls, o)
				cr.oblExec[o] = ex
				fr.Obligations++
			}
			for t := range vc.trusted {
				cr.trusted[t] = true
			}
		}
		if ex != nil {
			for a := range ex.abstracted {
				cr.abstracted[a] = true
				fr.Abstracted = append(fr.Abstracted, a)
			}
			sort.Strings(fr.Abstracted)
			for c := range ex.usedContracts {
				cr.contracts[c] = true
				if cc := db.funcs[c]; cc != nil {
					for _, en := range cc.Ensures {
						if cc.Opts["trust_ensures"] == "true" || hasProp(en.Props, "assumed") {
							cr.abstracted["ASSUMED (not proved): ensures of "+c+": "+en.Text] = true
						}
					}
				}
			}
		}
		cr.funcs = append(cr.funcs, fr)
	}
	if anyFn == nil {
		// lemmas need some function for package context
		for _, n := range []string{"glow.UnixToTimeslot"} {
			anyFn = ld.funcs[n]
		}
	}
	for _, fc := range db.frames {
		if !hasProp(fc.Props, cr.prop) {
			continue
		}
		o := frameObligation(ld, fc)
		o.Name = "[" + config + "] " + o.Name
		cr.obls = append(cr.obls, o)
		cr.funcs = append(cr.funcs, funcReport{Name: o.Func, Config: config, Obligations: 1})
	}
	for _, lm := range db.lemmas {
		if !hasProp(lm.Props, cr.prop) {
			continue
		}
		skip := false
		for _, u := range lm.Uses {
			if (u == "PROD" && config != "PROD") || (u == "TEST" && config != "TEST") {
				skip = true
			}
		}
		if skip {
			continue
		}
		ctxFn := anyFn
		for n, f := range ld.funcs {
			if strings.HasPrefix(n, lm.Pkg+".") && f.Pkg != nil && f.Parent() == nil {
				ctxFn = f
				break
			}
		}
		vc, err := VerifyLemma(ld, db, lm, ctxFn)
		fr := funcReport{Name: lm.Pkg + ".lemma:" + lm.Name, Config: config}
		if err != nil {
			fr.Error = err.Error()
			cr.genErrors = append(cr.genErrors, fmt.Sprintf("[%s] lemma %s: %v", config, lm.Name, err))
		}
		if vc != nil {
			for _, o := range vc.obls {
				o.Name = "[" + config + "] " + o.Name
				cr.obls = append(cr.obls, o)
				fr.Obligations++
			}
			for t := range vc.trusted {
				cr.trusted[t] = true
			}
		}
		cr.funcs = append(cr.funcs, fr)
	}
}

func clauseHasProp(ct *FuncContract, p string) bool {
	for _, c := range ct.Ensures {
		if hasProp(c.Props, p) {
			return true
		}
	}
	for _, l := range ct.Loops {
		for _, c := range l.Invariants {
			if hasProp(c.Props, p) {
				return true
			}
		}
		for _, cs := range [][]Clause{l.BackEdge, l.Init, l.Exit} {
			for _, c := range cs {
				if hasProp(c.Props, p) {
					return true
				}
			}
		}
	}
	for _, c := range ct.UnlockAsserts {
		if hasProp(c.Props, p) {
			return true
		}
	}
	for _, c := range ct.CallAsserts {
		if hasProp(c.Clause.Props, p) {
			return true
		}
	}
	for _, cs := range ct.StoreAsserts {
		for _, c := range cs {
			if hasProp(c.Props, p) {
				return true
			}
		}
	}
	return false
}

func stripConfig(name string) string {
	if i := strings.Index(name, "] "); i >= 0 && strings.HasPrefix(name, "[") {
		return name[i+2:]
	}
	return name
}

func cmdCheck(args []string) {
	fs := flag.NewFlagSet("check", flag.ExitOnError)
	prop := fs.String("prop", "", "property id")
	tier := fs.String("tier", "quick", "quick|thorough")
	repo := fs.String("repo", "/repo", "")
	verif := fs.String("verif", "/verif", "")
	noEvidence := fs.Bool("no-evidence", false, "do not write the evidence file (self-test runs)")
	fs.Parse(args)
	if *prop == "" {
		usage()
	}
	if env := os.Getenv("VERIF_TIER"); env != "" && (env == "quick" || env == "thorough") {
		*tier = env
	}
	seed := 0
	if s := os.Getenv("VERIF_SEED"); s != "" {
		seed, _ = strconv.Atoi(s)
	}
	t0 := time.Now()
	cr := &checkRun{prop: *prop, tier: *tier, repo: *repo, verifDir: *verif, timeout: 60, oblExec: map[*Obl]*Exec{},
		trusted: map[string]bool{}, abstracted: map[string]bool{}, contracts: map[string]bool{}}
	if *tier == "thorough" {
		cr.timeout = 120
		cr.confirm = true
	}
	cr.generate("PROD", "verif")
	if *tier == "thorough" {
		cr.generate("TEST", "verif,test")
	}
	kfs, fixed, err := readKnownFindings(filepath.Join(*verif, "known-findings.txt"))
	if err != nil {
		fmt.Println("cannot read known-findings.txt:", err)
		os.Exit(2)
	}
	// obligations with a recorded finding are expected to stay undecided or
	// fail without the class restriction: do not spend the full timeout there
	if *tier == "quick" {
		for _, o := range cr.obls {
			base := stripConfig(o.Name)
			for _, kf := range kfs {
				if kf.Prop == *prop && (kf.Obligation == base || (strings.HasSuffix(kf.Obligation, "*") && strings.HasPrefix(base, strings.TrimSuffix(kf.Obligation, "*")))) {
					o.TimeoutS = 12
				}
			}
		}
	}
	disagreements := Discharge(cr.obls, cr.timeout, cr.confirm, runtime.NumCPU())
	os.MkdirAll(filepath.Join(*verif, "replays"), 0755)
	os.MkdirAll(filepath.Join(*verif, "evidence"), 0755)

	violations := 0
	var lines []string
	knownMatched := map[string]bool{}
	var restricted []map[string]string
	discharged := 0
	solverCount := map[string]int{}
	solverTime := map[string]float64{}
	perFunc := map[string]*funcReport{}
	for i := range cr.funcs {
		perFunc[cr.funcs[i].Config+"|"+cr.funcs[i].Name] = &cr.funcs[i]
	}
	for _, o := range cr.obls {
		solverCount[o.Solver]++
		solverTime[o.Solver] += o.TimeS
		cfg := "PROD"
		if strings.HasPrefix(o.Name, "[TEST]") {
			cfg = "TEST"
		}
		if o.Result == "unsat" {
			discharged++
			if fr := perFunc[cfg+"|"+o.Func]; fr != nil {
				fr.Discharged++
			}
			continue
		}
		// failing obligation: known finding?
		base := stripConfig(o.Name)
		matched := false
		for _, kf := range kfs {
			if kf.Prop != *prop {
				continue
			}
			if !(kf.Obligation == base || (strings.HasSuffix(kf.Obligation, "*") && strings.HasPrefix(base, strings.TrimSuffix(kf.Obligation, "*")))) {
				continue
			}
			if kf.Class == "" {
				matched = true
			} else if ex := cr.oblExec[o]; ex != nil {
				// the failure must lie entirely inside the known input class
				if r := classCovers(ex, o, kf.Class, cr.timeout); r == "unsat" {
					matched = true
				}
			}
			if matched {
				// what was proved is the obligation restricted to inputs outside the
				// recorded class (that query is unsat): counted as discharged, and
				// listed explicitly in the evidence
				discharged++
				restricted = append(restricted, map[string]string{"obligation": o.Name, "excluded_input_class": kf.Class, "finding": kf.What})
				if fr := perFunc[cfg+"|"+o.Func]; fr != nil {
					fr.Discharged++
				}
				key := kf.Prop + "|" + kf.Obligation + "|" + kf.Class
				if !knownMatched[key] {
					knownMatched[key] = true
					lines = append(lines, fmt.Sprintf("KNOWN-FINDING: property=%s %s (obligation %s)", *prop, kf.What, kf.Obligation))
				}
				break
			}
		}
		if matched {
			continue
		}
		violations++
		h := sha1.Sum([]byte(base))
		rp := filepath.Join(*verif, "replays", fmt.Sprintf("%s-%x.json", *prop, h[:6]))
		replayed := writeReplay(rp, *prop, o, cr)
		suffix := ""
		if !replayed {
			suffix = " no-failing-input-found"
		}
		lines = append(lines, fmt.Sprintf("VIOLATION property=%s replay=%s obligation=%s result=%s%s", *prop, rp, base, o.Result, suffix))
	}
	for _, e := range cr.genErrors {
		violations++
		h := sha1.Sum([]byte(e))
		rp := filepath.Join(*verif, "replays", fmt.Sprintf("%s-gen-%x.json", *prop, h[:6]))
		js, _ := json.MarshalIndent(map[string]interface{}{"property": *prop, "kind": "obligations could not be generated", "detail": e}, "", " ")
		os.WriteFile(rp, js, 0644)
		lines = append(lines, fmt.Sprintf("VIOLATION property=%s replay=%s obligation=<generation> %s no-failing-input-found", *prop, rp, e))
	}
	// vacuity guards
	expectPath := filepath.Join(*verif, "expect", "obligations.json")
	expect := map[string]map[string]int{}
	if data, err := os.ReadFile(expectPath); err == nil {
		json.Unmarshal(data, &expect)
	}
	vacuity := map[string]interface{}{}
	if want, ok := expect[*prop]; ok {
		short := []string{}
		for _, fr := range cr.funcs {
			if fr.Config != "PROD" {
				continue
			}
			// a function that used to carry obligations and now carries none, or
			// fewer than half, means the harness went blind (a harmless edit may
			// remove a few obligations; it does not remove most of them)
			if w, ok := want[fr.Name]; ok && w > 0 && (fr.Obligations == 0 || 2*fr.Obligations < w) {
				short = append(short, fmt.Sprintf("%s: %d obligations, %d recorded", fr.Name, fr.Obligations, w))
			}
		}
		for n := range want {
			found := false
			for _, fr := range cr.funcs {
				if fr.Name == n {
					found = true
				}
			}
			if !found {
				short = append(short, n+": missing")
			}
		}
		sort.Strings(short)
		vacuity["obligation_count_shortfalls"] = short
		for _, s := range short {
			violations++
			rp := filepath.Join(*verif, "replays", fmt.Sprintf("%s-vacuity.json", *prop))
			js, _ := json.MarshalIndent(map[string]interface{}{"property": *prop, "kind": "vacuity: fewer obligations than recorded", "detail": short}, "", " ")
			os.WriteFile(rp, js, 0644)
			lines = append(lines, fmt.Sprintf("VIOLATION property=%s replay=%s obligation=<vacuity> fewer obligations generated than recorded for %s no-failing-input-found", *prop, rp, s))
		}
	}
	if len(cr.obls) == 0 {
		violations++
		lines = append(lines, fmt.Sprintf("VIOLATION property=%s replay=%s obligation=<vacuity> no obligations generated no-failing-input-found", *prop, expectPath))
	}
	// reachability of each function's normal exit under all assumptions made on
	// the way (a contradictory requires / invariant / callee contract would make
	// everything below it pass vacuously)
	reach := map[string]string{}
	seenVC := map[*VC]bool{}
	type reachJob struct {
		key string
		vc  *VC
		res string
	}
	var jobs []*reachJob
	for _, o := range cr.obls {
		vc := o.vc
		if seenVC[vc] || vc.exitGuard == "" {
			continue
		}
		seenVC[vc] = true
		jobs = append(jobs, &reachJob{key: o.Name[:6] + " " + vc.Func, vc: vc})
	}
	{
		var wg sync.WaitGroup
		sem := make(chan struct{}, runtime.NumCPU()/2+1)
		for _, j := range jobs {
			wg.Add(1)
			go func(j *reachJob) {
				defer wg.Done()
				sem <- struct{}{}
				defer func() { <-sem }()
				eo := &Obl{vc: j.vc, Prefix: j.vc.exitPrefix, Guard: j.vc.exitGuard, Goal: "true"}
				// only "unsat" (contradictory assumptions) matters; quantified
				// hypotheses usually make the solver answer unknown
				j.res = CheckSat(eo.ReachQuery(), 5)
			}(j)
		}
		wg.Wait()
	}
	for _, j := range jobs {
		reach[j.key] = j.res
		if j.res == "unsat" {
			violations++
			rp := filepath.Join(*verif, "replays", fmt.Sprintf("%s-vacuity.json", *prop))
			js, _ := json.MarshalIndent(map[string]interface{}{"property": *prop, "kind": "vacuity: assumptions contradictory at the exit of " + j.vc.Func}, "", " ")
			os.WriteFile(rp, js, 0644)
			lines = append(lines, fmt.Sprintf("VIOLATION property=%s replay=%s obligation=<vacuity> assumptions are contradictory at the exit of %s no-failing-input-found", *prop, rp, j.vc.Func))
		}
	}
	vacuity["reachability"] = reach

	for _, l := range lines {
		fmt.Println(l)
	}
	wall := time.Since(t0).Seconds()
	fmt.Printf("property %s tier %s: %d obligations, %d discharged, %d known findings, %d violations, %.1fs\n", *prop, *tier, len(cr.obls), discharged, len(knownMatched), violations, wall)

	if !*noEvidence {
		cr.restricted = restricted
		writeEvidence(cr, *prop, *tier, seed, discharged, violations, disagreements, solverCount, solverTime, vacuity, knownMatched, fixed, wall)
	}
	if violations > 0 {
		pprof.StopCPUProfile()
		os.Exit(1)
	}
}

// classCovers: does every failing input of obligation o lie inside the class
// predicate? Returns the solver status of (prefix ∧ guard ∧ ¬goal ∧ ¬class).
func classCovers(ex *Exec, o *Obl, class string, timeout int) (res string) {
	defer func() {
		if r := recover(); r != nil {
			res = "error"
		}
	}()
	e, err := parseExpr(class)
	if err != nil {
		return "error"
	}
	vc := ex.vc
	before := len(vc.cmds)
	fr := ex.topFrame
	if fr == nil {
		return "error"
	}
	t := ex.evalBool(fr, fr.entry, fr.entry, nil, e)
	extra := append([]string{}, vc.cmds[before:]...)
	vc.cmds = vc.cmds[:before]
	o2 := *o
	o2.Extra = extra
	o2.ExtraAssert = "(assert (not " + t + "))\n"
	return CheckSat(o2.Query(false), timeout)
}

func writeReplay(path, prop string, o *Obl, cr *checkRun) bool {
	rec := map[string]interface{}{
		"property":      prop,
		"obligation":    stripConfig(o.Name),
		"config":        o.Name[1:5],
		"kind":          o.Kind,
		"function":      o.Func,
		"source":        o.Src,
		"position":      o.Pos.String(),
		"result":        o.Result,
		"solver":        o.Solver,
		"solver_output": o.Model,
		"frame_verdict": o.FrameDetail,
		"replayed":      false,
	}
	replayed := false
	if strings.HasPrefix(o.Result, "sat") {
		if out, ok := tryReplay(cr, o); out != "" {
			rec["replay_output"] = out
			rec["replayed"] = ok
			replayed = ok
		}
	}
	js, _ := json.MarshalIndent(rec, "", " ")
	os.WriteFile(path, js, 0644)
	qpath := strings.TrimSuffix(path, ".json") + ".smt2"
	os.WriteFile(qpath, []byte(o.Query(true)), 0644)
	return replayed
}

func writeEvidence(cr *checkRun, prop, tier string, seed, discharged, violations, disagreements int, solverCount map[string]int, solverTime map[string]float64, vacuity map[string]interface{}, known map[string]bool, fixed []fixedEntry, wall float64) {
	var samples []oblSample
	// a spread of samples: first, slowest, and every failing one (capped)
	sorted := append([]*Obl{}, cr.obls...)
	sort.SliceStable(sorted, func(i, j int) bool { return sorted[i].TimeS > sorted[j].TimeS })
	seen := map[*Obl]bool{}
	add := func(o *Obl) {
		if seen[o] || len(samples) >= 25 {
			return
		}
		seen[o] = true
		samples = append(samples, oblSample{o.Name, o.Result, o.Solver, o.TimeS, len(o.Query(false))})
	}
	for _, o := range cr.obls {
		if o.Result != "unsat" {
			add(o)
		}
	}
	for i := 0; i < len(sorted) && i < 5; i++ {
		add(sorted[i])
	}
	step := len(cr.obls)/12 + 1
	for i := 0; i < len(cr.obls); i += step {
		add(cr.obls[i])
	}
	tb := sortedKeys(cr.trusted)
	for c := range cr.contracts {
		tb = append(tb, "callee contract used at call sites (proved separately when that function is checked): "+c)
	}
	tb = append(tb,
		"A1: govc itself (SSA-to-SMT encoder, contract evaluator, library models) is unverified Go code",
		"A2: go/ssa, go/types and the Go toolchain implement the Go specification; VC semantics follows the spec",
		"A3: SMT solvers are sound (z3 5.1.0, z3 4.8.12, cvc5 1.0.x; thorough tier asks a second solver to confirm)")
	sort.Strings(tb)
	var fxs []string
	for _, f := range fixed {
		if f.Prop == prop {
			fxs = append(fxs, f.Commit+" "+f.What)
		}
	}
	kn := sortedKeys(known)
	confirmed, unconfirmed := 0, 0
	for _, o := range cr.obls {
		if o.Tags != nil && o.Tags["unsat_confirmations"] != "" {
			if o.Tags["unsat_confirmations"] == "1" {
				unconfirmed++
			} else {
				confirmed++
			}
		}
	}
	cov := map[string]interface{}{
		"obligations":              len(cr.obls),
		"discharged":               discharged,
		"checker_cmd":              fmt.Sprintf("/verif/bin/govc check -prop %s -tier %s (per obligation: z3-new alone 6 s, then lean / ground / lambda / focused / full renderings raced on z3-new 5.1, z3 4.8.12, cvc5 1.0 (--enum-inst, --solve-bv-as-int) and, on quantifier-free renderings only, z3-new smt.bv.solver=2; full-rendering timeout %d s; thorough: a second solver re-proves every discharged rendering)", prop, tier, cr.timeout),
		"trusted_base":             tb,
		"functions_under_contract": cr.funcs,
		"abstracted":               sortedKeys(cr.abstracted),
		"bounded_standins":         []string{},
		"solver_obligations":       solverCount,
		"solver_seconds":           solverTime,
		"solver_disagreements":     disagreements,
		"second_solver":            map[string]int{"confirmed": confirmed, "not_confirmed_within_30s": unconfirmed},
		"vacuity":                  vacuity,
		"samples":                  samples,
		"known_findings_matched":   kn,
		"discharged_only_outside_known_finding_class": cr.restricted,
		"fixed_findings":     fxs,
		"machine_arithmetic": "fixed-width bit-vectors (int = 64 bit); wrap-around modelled, never treated as mathematical",
		"configs":            map[string]bool{"PROD(-tags verif)": true, "TEST(-tags verif,test)": tier == "thorough"},
	}
	ev := map[string]interface{}{
		"property_id": prop,
		"tier":        tier,
		"seed":        seed,
		"level":       "proof",
		"coverage":    cov,
		"assumptions": propAssumptions(prop),
		"wall_s":      wall,
		"violations":  violations,
	}
	var buf strings.Builder
	enc := json.NewEncoder(&buf)
	enc.SetEscapeHTML(false)
	enc.SetIndent("", " ")
	enc.Encode(ev)
	os.WriteFile(filepath.Join(cr.verifDir, "evidence", prop+".json"), []byte(buf.String()), 0644)
}
