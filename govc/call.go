package main

import (
	"fmt"
	"go/token"
	"go/types"
	"strings"

	"golang.org/x/tools/go/ssa"
)

func (ex *Exec) call(st *State, fr *Frame, c *ssa.CallCommon, site ssa.Instruction, pos token.Pos) Val {
	var args []Val
	for _, a := range c.Args {
		args = append(args, ex.val(fr, a))
	}
	if c.IsInvoke() {
		return ex.invoke(st, fr, c, args, site, pos)
	}
	switch callee := c.Value.(type) {
	case *ssa.Builtin:
		return ex.builtin(st, fr, callee, c, args, site, pos)
	case *ssa.Function:
		return ex.callStatic(st, fr, callee, args, nil, c, site, pos)
	}
	v := ex.val(fr, c.Value)
	if clo, ok := v.(*Clo); ok {
		return ex.callStatic(st, fr, clo.Fn, args, clo.Binds, c, site, pos)
	}
	// unknown function value
	for _, a := range args {
		ex.markEscapedAny(a)
	}
	ex.abstracted["call through function value in "+funcName(fr.fn)] = true
	ex.havocAllHeap(st, "function value")
	return ex.freshResults(st, c.Signature().Results(), "fv")
}

func (ex *Exec) freshResults(st *State, res *types.Tuple, hint string) Val {
	switch res.Len() {
	case 0:
		return nil
	case 1:
		v := ex.freshVal(res.At(0).Type(), hint)
		ex.validRefs(st, v, res.At(0).Type())
		return v
	}
	v := ex.freshVal(res, hint)
	for i := 0; i < res.Len(); i++ {
		ex.validRefs(st, v.(*Agg).F[i], res.At(i).Type())
	}
	return v
}

func packResults(rs []Val) Val {
	switch len(rs) {
	case 0:
		return nil
	case 1:
		return rs[0]
	}
	return &Agg{F: rs}
}

var inlineExternalPkgs = map[string]bool{"encoding/binary": true, "bytes": true, "math/bits": true, "internal/byteorder": true}

func inlineExternal(fn *ssa.Function) bool {
	if fn.Pkg == nil {
		return false
	}
	if !inlineExternalPkgs[fn.Pkg.Pkg.Path()] {
		return false
	}
	if fn.Pkg.Pkg.Path() == "encoding/binary" {
		// only the fixed-width byte-order helpers (straight-line code); Read and
		// Write use reflection
		return fn.Signature.Recv() != nil && (strings.Contains(fn.Signature.Recv().Type().String(), "littleEndian") || strings.Contains(fn.Signature.Recv().Type().String(), "bigEndian"))
	}
	if fn.Pkg.Pkg.Path() == "bytes" {
		if fn.Name() == "NewBuffer" {
			return true
		}
		if fn.Signature.Recv() != nil && strings.Contains(fn.Signature.Recv().Type().String(), "bytes.Buffer") {
			switch fn.Name() {
			case "Len", "Next", "empty", "Reset":
				return true
			}
		}
		return false
	}
	return true
}

func isLoggerCall(fn *ssa.Function) bool {
	n := funcName(fn)
	return strings.HasPrefix(n, "server.(*Logger).")
}

func (ex *Exec) onStack(fn *ssa.Function, fr *Frame) bool {
	for f := fr; f != nil; f = f.parent {
		if f.fn == fn {
			return true
		}
	}
	return false
}

func (ex *Exec) callStatic(st *State, fr *Frame, callee *ssa.Function, args []Val, binds []Val, c *ssa.CallCommon, site ssa.Instruction, pos token.Pos) Val {
	fnm := fullName(callee)
	if in, ok := intrinsics[fnm]; ok {
		return in(ex, st, fr, callee, args, c, pos)
	}
	if isLoggerCall(callee) {
		if strings.HasPrefix(callee.Name(), "Fatal") {
			ex.oblige(st, fr, "panic", pos, "", "false")
		}
		ex.vc.Trust("A11: logging calls are total and do not touch verified state")
		return nil
	}
	if ct := ex.db.funcs[funcName(callee)]; ct != nil && ct.Modular && callee != ex.top {
		return ex.callModular(st, fr, callee, ct, args, pos)
	}
	if len(callee.Blocks) > 0 && (inModule(callee) || inlineExternal(callee) || binds != nil) && fr.depth < ex.maxInline && !ex.onStack(callee, fr) {
		return ex.inline(st, fr, callee, args, binds, pos)
	}
	if in, ok := externalModels[fnm]; ok {
		return in(ex, st, fr, callee, args, c, pos)
	}
	for _, a := range args {
		ex.markEscapedAny(a)
	}
	if inModule(callee) {
		ex.abstracted["call to "+funcName(callee)+" abstracted (beyond inline budget or recursive): whole heap havocked"] = true
		ex.havocAllHeap(st, fnm)
		return ex.freshResults(st, callee.Signature.Results(), callee.Name())
	}
	return ex.externalDefault(st, fr, callee.Signature, fnm, c, args, pos)
}

// externalDefault: results unconstrained, memory directly reachable from
// pointer and slice arguments havocked.
func (ex *Exec) externalDefault(st *State, fr *Frame, sig *types.Signature, name string, c *ssa.CallCommon, args []Val, pos token.Pos) Val {
	ex.vc.Trust("external call " + name + ": results unconstrained, memory reachable from arguments havocked")
	for _, a := range args {
		ex.markEscapedAny(a)
	}
	for i, a := range args {
		var at types.Type
		if i < len(c.Args) {
			at = c.Args[i].Type()
		} else {
			continue
		}
		ex.havocArg(st, a, at)
	}
	return ex.freshResults(st, sig.Results(), sanitize(name))
}

func (ex *Exec) havocArg(st *State, a Val, at types.Type) {
	switch kindOf(at) {
	case KIface:
		// an interface argument (json Decode(&v), binary.Read(..., &v)): the callee
		// may write through the value it wraps
		if s, ok := a.(Sc); ok {
			if rec, has := ex.ifacePayload[s.T]; has {
				if kindOf(rec.t) != KIface {
					ex.havocArg(st, rec.v, rec.t)
				}
				return
			}
			if s.T != z64() {
				ex.havocAllHeap(st, "interface argument of unknown dynamic type")
			}
		}
	case KSlice:
		switch s := a.(type) {
		case *Agg:
			el := at.Underlying().(*types.Slice).Elem()
			tree := ex.heapTree(st, AElems, el)
			r := sc(s.F[0]).T
			nt := leafMap(tree, func(l Sc) Sc {
				_, inner := l.S.ArrParts()
				return Sc{sto(l.T, r, ex.vc.Fresh("hv", inner)), l.S}
			})
			ex.setHeapTree(st, AElems, el, nt)
		case *SliceI:
			t := s.A.typeAt()
			ex.store(st, s.A, ex.freshVal(t, "hv"))
		}
	case KPtr:
		pt, ok := at.Underlying().(*types.Pointer)
		if !ok {
			return
		}
		switch p := a.(type) {
		case *PtrI:
			nv := ex.freshVal(pt.Elem(), "hv")
			ex.validRefs(st, nv, pt.Elem())
			ex.store(st, p.A, nv)
		case Sc:
			if kindOf(pt.Elem()) == KOpaque {
				return
			}
			// guarded: only when non-nil
			addr := rootAddr(p.T, at)
			nv := ex.freshVal(pt.Elem(), "hv")
			ex.validRefs(st, nv, pt.Elem())
			ex.store(st, addr, nv)
		}
	}
}

func (ex *Exec) inline(st *State, fr *Frame, callee *ssa.Function, args []Val, binds []Val, pos token.Pos) Val {
	chain := funcName(callee)
	if fr.chain != "" {
		chain = fr.chain + ">" + chain
	}
	nf := &Frame{fn: callee, regs: map[ssa.Value]Val{}, depth: fr.depth + 1, chain: chain, params: args, parent: fr, callPos: pos}
	if ex.db != nil {
		nf.ct = nil
	}
	for i, fv := range callee.FreeVars {
		if i < len(binds) {
			nf.regs[fv] = binds[i]
		}
	}
	entry := st.clone()
	savedDefers := st.defers
	out, res := ex.execBody(nf, entry)
	if out == nil {
		// callee never returns on this path
		ex.vc.Assume(not(st.guard))
		st.guard = "false"
		return ex.freshResults(st, callee.Signature.Results(), "noreturn")
	}
	g := st.guard
	*st = *out
	// the callee's exit guard is the set of its returning paths
	_ = g
	_ = savedDefers
	return packResults(res)
}

func (ex *Exec) runDefers(st *State, fr *Frame) {
	for i := len(st.defers) - 1; i >= 0; i-- {
		d := st.defers[i]
		if d.frame != fr {
			continue
		}
		st.defers = append(st.defers[:i:i], st.defers[i+1:]...)
		run := func(s *State) {
			var args []Val
			c := d.call.Common()
			for _, a := range c.Args {
				args = append(args, ex.val(d.frame, a))
			}
			if c.IsInvoke() {
				ex.invoke(s, d.frame, c, args, d.call, d.call.Pos())
				return
			}
			switch callee := c.Value.(type) {
			case *ssa.Builtin:
				ex.builtin(s, d.frame, callee, c, args, d.call, d.call.Pos())
			case *ssa.Function:
				ex.callStatic(s, d.frame, callee, args, nil, c, d.call, d.call.Pos())
			default:
				v := ex.val(d.frame, c.Value)
				if clo, ok := v.(*Clo); ok {
					ex.callStatic(s, d.frame, clo.Fn, args, clo.Binds, c, d.call, d.call.Pos())
				} else {
					ex.havocAllHeap(s, "deferred function value")
				}
			}
		}
		if d.guard == st.guard || ex.curBlockDominatedBy(d.call.Block()) {
			run(st)
			continue
		}
		ex.underGuard(st, d.guard, run)
	}
}

func (ex *Exec) curBlockDominatedBy(b *ssa.BasicBlock) bool {
	return ex.curBlock != nil && b.Parent() == ex.curBlock.Parent() && b.Dominates(ex.curBlock)
}

func (ex *Exec) underGuard(st *State, g string, f func(*State)) {
	taken := st.clone()
	taken.guard = ex.vc.Bind("gt", SBool, and(st.guard, g))
	f(taken)
	skipped := st.clone()
	skipped.guard = ex.vc.Bind("gs", SBool, and(st.guard, not(g)))
	orig := st.guard
	m := ex.mergeStates(taken, skipped)
	*st = *m
	st.guard = orig
}

// ---------------------------------------------------------------------------
// interface method calls

func (ex *Exec) invoke(st *State, fr *Frame, c *ssa.CallCommon, args []Val, site ssa.Instruction, pos token.Pos) Val {
	recvT := c.Value.Type()
	name := fmt.Sprintf("(%s).%s", types.TypeString(recvT, nil), c.Method.Name())
	if in, ok := invokeModels[name]; ok {
		return in(ex, st, fr, nil, append([]Val{ex.val(fr, c.Value)}, args...), c, pos)
	}
	if in, ok := invokeModels["*."+c.Method.Name()]; ok {
		return in(ex, st, fr, nil, append([]Val{ex.val(fr, c.Value)}, args...), c, pos)
	}
	sig := c.Method.Type().(*types.Signature)
	ex.oblige(st, fr, "nil", pos, "", not(eq(sc(ex.val(fr, c.Value)).T, z64())))
	return ex.externalDefault(st, fr, sig, name, c, args, pos)
}

// ---------------------------------------------------------------------------
// builtins

func (ex *Exec) builtin(st *State, fr *Frame, b *ssa.Builtin, c *ssa.CallCommon, args []Val, site ssa.Instruction, pos token.Pos) Val {
	switch b.Name() {
	case "len":
		return Sc{ex.lenOf(st, args[0], c.Args[0].Type()), BV(64)}
	case "cap":
		switch kindOf(c.Args[0].Type()) {
		case KSlice:
			return Sc{ex.viewSlice(args[0], c.Args[0].Type()).cp, BV(64)}
		}
		return Sc{ex.lenOf(st, args[0], c.Args[0].Type()), BV(64)}
	case "append":
		return ex.doAppend(st, fr, c, args, pos)
	case "copy":
		return ex.doCopy(st, fr, c, args, pos)
	case "delete":
		m := sc(args[0]).T
		k := sc(args[1]).T
		ex.checkAssignsMap(st, fr, c.Args[0].Type(), m, k, pos)
		ex.mapDelete(st, c.Args[0].Type(), m, k)
		return nil
	case "print", "println":
		return nil
	case "ssa:wrapnilchk":
		ex.oblige(st, fr, "nil", pos, "", not(eq(sc(args[0]).T, z64())))
		return args[0]
	case "ssa:deferstack":
		return Sc{z64(), SRef}
	case "min", "max":
		x, y := sc(args[0]), sc(args[1])
		t := c.Args[0].Type()
		var lt string
		switch {
		case x.S == SFP:
			lt = app("fp.lt", x.T, y.T)
		case isSigned(t):
			lt = app("bvslt", x.T, y.T)
		default:
			lt = app("bvult", x.T, y.T)
		}
		if b.Name() == "min" {
			return Sc{ite(lt, x.T, y.T), x.S}
		}
		return Sc{ite(lt, y.T, x.T), x.S}
	case "recover":
		return Sc{z64(), SRef}
	case "close":
		return nil
	}
	ex.unsupportedf("builtin %s", b.Name())
	return nil
}

func (ex *Exec) lenOf(st *State, v Val, t types.Type) string {
	switch kindOf(t) {
	case KSlice:
		return ex.viewSlice(v, t).ln
	case KStr:
		return app("Str_len", sc(v).T)
	case KArr, KPacked:
		return bvInt(t.Underlying().(*types.Array).Len(), 64)
	case KPtr:
		return bvInt(t.Underlying().(*types.Pointer).Elem().Underlying().(*types.Array).Len(), 64)
	case KMap:
		mi := ex.mapInfo(t)
		m := sc(v).T
		card := sel(ex.comp(st, mi.cardK, mi.cardS), m)
		ex.assume(st, app("bvsle", z64(), card))
		return ite(eq(m, z64()), z64(), card)
	}
	ex.unsupportedf("len of %v", t)
	return ""
}

const unrollLimit = 160

// seqRead describes a readable sequence of elements: slice or string.
func (ex *Exec) elemReader(st *State, v Val, t types.Type) (read func(i string) Val, ln string) {
	if kindOf(t) == KStr {
		s := sc(v).T
		return func(i string) Val { return Sc{app("Str_at", s, i), BV(8)} }, app("Str_len", s)
	}
	sv := ex.viewSlice(v, t)
	return func(i string) Val { return ex.load(st, sv.elemAddr(i)) }, sv.ln
}

func (ex *Exec) doCopy(st *State, fr *Frame, c *ssa.CallCommon, args []Val, pos token.Pos) Val {
	dt := c.Args[0].Type()
	dst := ex.viewSlice(args[0], dt)
	read, sl := ex.elemReader(st, args[1], c.Args[1].Type())
	n := ex.vc.Bind("ncopy", BV(64), ite(app("bvslt", dst.ln, sl), dst.ln, sl))
	ex.copyElems(st, fr, dst, read, args[1], c.Args[1].Type(), n, pos)
	return Sc{n, BV(64)}
}

// copyElems writes n elements read(0..n-1) to dst[0..n-1].
func (ex *Exec) copyElems(st *State, fr *Frame, dst *sliceView, read func(string) Val, srcV Val, srcT types.Type, n string, pos token.Pos) {
	if k, ok := constBV(n); ok && k <= unrollLimit {
		// read everything first (memmove semantics)
		vals := make([]Val, k)
		for i := uint64(0); i < k; i++ {
			vals[i] = ex.bindVal("cp", read(bvU(i, 64)))
		}
		if k > 0 {
			ex.checkAssigns(st, fr, dst.elemAddr(z64()), pos)
		}
		for i := uint64(0); i < k; i++ {
			ex.store(st, dst.elemAddr(bvU(i, 64)), vals[i])
		}
		return
	}
	// symbolic count but small constant destination: per-element conditional
	if k, ok := constBV(dst.ln); ok && k <= unrollLimit {
		vals := make([]Val, k)
		for i := uint64(0); i < k; i++ {
			iv := bvU(i, 64)
			cond := app("bvslt", iv, n)
			nv, ov := read(iv), ex.load(st, dst.elemAddr(iv))
			vals[i] = ex.bindVal("cp", leafZip(nv, ov, func(a, b Sc) Sc { return Sc{ite(cond, a.T, b.T), a.S} }))
		}
		if k > 0 {
			ex.checkAssigns(st, fr, dst.elemAddr(z64()), pos)
		}
		for i := uint64(0); i < k; i++ {
			ex.store(st, dst.elemAddr(bvU(i, 64)), vals[i])
		}
		return
	}
	// symbolic or long copy: new content described by a quantified fact
	if !dst.root {
		// interior destination: handle whole-array overwrite of known length only
		ex.copyToInterior(st, fr, dst, read, n, pos)
		return
	}
	ex.checkAssigns(st, fr, dst.elemAddr(z64()), pos)
	el := dst.elemT
	tree := ex.heapTree(st, AElems, el)
	// source leaves as functions of index
	qi := "qi"
	srcElem := read(app("bvsub", qi, dst.off))
	srcLeaves := leavesOf(srcElem)
	li := 0
	nt := leafMap(tree, func(l Sc) Sc {
		_, inner := l.S.ArrParts()
		old := sel(l.T, dst.ref)
		na := ex.vc.Fresh("copied", inner)
		src := srcLeaves[li]
		li++
		inRange := and(app("bvule", dst.off, qi), app("bvult", qi, app("bvadd", dst.off, n)))
		ex.arrayDef(st, na, inner, ite(inRange, src.T, sel(old, "qi")), "")
		return Sc{sto(l.T, dst.ref, na), l.S}
	})
	ex.setHeapTree(st, AElems, el, nt)
}

func (ex *Exec) copyToInterior(st *State, fr *Frame, dst *sliceView, read func(string) Val, n string, pos token.Pos) {
	// destination is an array inside a cell or object; rewrite the array value
	at := dst.back.typeAt()
	if dst.back.Kind != ACell {
		ex.checkAssigns(st, fr, dst.back, pos)
	}
	cur := ex.load(st, dst.back)
	switch kindOf(at) {
	case KArr:
		arr := cur.(*Arr)
		qi := "qi"
		srcElem := read(app("bvsub", qi, dst.off))
		srcLeaves := leavesOf(srcElem)
		li := 0
		nv := leafMap(arr.E, func(l Sc) Sc {
			na := ex.vc.Fresh("copied", l.S)
			src := srcLeaves[li]
			li++
			inRange := and(app("bvule", dst.off, qi), app("bvult", qi, app("bvadd", dst.off, n)))
			ex.arrayDef(st, na, l.S, ite(inRange, src.T, sel(l.T, "qi")), "")
			return Sc{na, l.S}
		})
		ex.store(st, dst.back, &Arr{nv})
	default:
		ex.unsupportedf("copy of symbolic length into packed array")
	}
}

func (ex *Exec) doAppend(st *State, fr *Frame, c *ssa.CallCommon, args []Val, pos token.Pos) Val {
	t := c.Args[0].Type()
	el := t.Underlying().(*types.Slice).Elem()
	var base *sliceView
	switch s := args[0].(type) {
	case *Agg:
		base = ex.viewSlice(s, t)
	case *SliceI:
		// a slice over a whole local array (len == cap): appending anything
		// reallocates, so the result is a fresh backing store holding a copy
		if s.Len != s.Cap {
			ex.unsupportedf("append to interior slice with spare capacity")
		}
		iv := ex.viewSlice(s, t)
		fresh := ex.newSliceRaw(st, t, s.Len, s.Len, "appbase", true).(*Agg)
		fv := ex.viewSlice(fresh, t)
		if k, ok := constBV(s.Len); ok && k <= unrollLimit {
			for i := uint64(0); i < k; i++ {
				ex.store(st, fv.elemAddr(bvU(i, 64)), ex.load(st, iv.elemAddr(bvU(i, 64))))
			}
		} else {
			ex.unsupportedf("append to interior slice of symbolic length")
		}
		base = fv
	default:
		ex.unsupportedf("append to %T", args[0])
	}
	read, n := ex.elemReader(st, args[1], c.Args[1].Type())
	newLen := ex.vc.Bind("alen", BV(64), app("bvadd", base.ln, n))
	fits := ex.vc.Bind("afits", SBool, app("bvsle", newLen, base.cp))
	// Case 1 (fits): write in place after len. Case 2: fresh backing store
	// with the old prefix copied. Modelled as: result ref = ite(fits, ref, fresh).
	fresh := ex.freshRef(st, "append")
	ncap := ex.vc.Fresh("acap", BV(64))
	ex.assume(st, and(app("bvsle", newLen, ncap), app("bvsle", ncap, bvInt(1<<40, 64))))
	tree := ex.heapTree(st, AElems, el)
	k, isConst := constBV(n)
	if !isConst || k > unrollLimit {
		// variadic append of a symbolic-length slice
		qi := "qi"
		srcElem := read(app("bvsub", qi, base.ln))
		srcLeaves := leavesOf(srcElem)
		// the same source element addressed by the absolute index of the in-place result
		srcElemAbs := read(app("bvsub", app("bvsub", qi, base.off), base.ln))
		srcLeavesAbs := leavesOf(srcElemAbs)
		li := 0
		ex.checkAssigns(st, fr, base.elemAddr(base.ln), pos)
		nt := leafMap(tree, func(l Sc) Sc {
			_, inner := l.S.ArrParts()
			oldA := sel(l.T, base.ref)
			src := srcLeaves[li]
			srcAbs := srcLeavesAbs[li]
			li++
			inNew := and(app("bvule", base.ln, qi), app("bvult", qi, newLen))
			// in place: every index outside the appended range keeps its content
			// (absolute indices, so that constant offsets match the trigger)
			// one array for the result's backing store, whichever case applies:
			// in place (indices absolute, offset kept) or reallocated (offset 0)
			ra := ex.vc.Fresh("appended", inner)
			rel := app("bvsub", qi, base.off)
			inNewAbs := and(app("bvule", base.off, qi), app("bvule", base.ln, rel), app("bvult", rel, newLen))
			inPlace := ite(inNewAbs, srcAbs.T, sel(oldA, "qi"))
			realloc := ite(inNew, src.T, sel(oldA, app("bvadd", base.off, "qi")))
			ex.arrayDef(st, ra, inner, ite(fits, inPlace, realloc), "")
			return Sc{sto(l.T, ite(fits, base.ref, fresh), ra), l.S}
		})
		ex.setHeapTree(st, AElems, el, nt)
	} else {
		vals := make([]Val, k)
		for i := uint64(0); i < k; i++ {
			vals[i] = ex.bindVal("ap", read(bvU(i, 64)))
			ex.markEscaped(vals[i])
		}
		// Both outcomes (room left: write in place; otherwise: reallocate) put the
		// same content at the same offsets of the result's backing store: the old
		// array with the new elements stored after the old length. So the new
		// memory is one store at the result reference (the old backing store is
		// untouched when a fresh one is used). The spare capacity of a
		// reallocated slice is not modelled (cap == len after reallocation).
		if k > 0 {
			g := st.guard
			st.guard = ex.vc.Bind("gfit", SBool, and(g, fits))
			ex.checkAssigns(st, fr, base.elemAddr(base.ln), pos)
			st.guard = g
		}
		rref := ex.vc.Bind("aref", SRef, ite(fits, base.ref, fresh))
		tree := ex.heapTree(st, AElems, el)
		// content array after the append, leaf by leaf
		idx := func(i uint64) string { return app("bvadd", base.off, app("bvadd", base.ln, bvU(i, 64))) }
		li := 0
		valLeaves := make([][]Sc, k)
		for i := uint64(0); i < k; i++ {
			valLeaves[i] = leavesOf(vals[i])
		}
		nt := leafMap(tree, func(l Sc) Sc {
			content := sel(l.T, base.ref)
			for i := uint64(0); i < k; i++ {
				content = sto(content, idx(i), valLeaves[i][li].T)
			}
			li++
			return Sc{sto(l.T, rref, content), l.S}
		})
		ex.setHeapTree(st, AElems, el, nt)
		ex.vc.Trust("append: the spare capacity of a reallocated slice is not modelled (cap == len after reallocation)")
		return &Agg{F: []Val{
			Sc{rref, SRef},
			Sc{base.off, BV(64)},
			Sc{newLen, BV(64)},
			Sc{ex.vc.Bind("acap2", BV(64), ite(fits, base.cp, newLen)), BV(64)},
		}}
	}
	res := &Agg{F: []Val{
		Sc{ex.vc.Bind("aref", SRef, ite(fits, base.ref, fresh)), SRef},
		Sc{ex.vc.Bind("aoff", BV(64), ite(fits, base.off, z64())), BV(64)},
		Sc{newLen, BV(64)},
		Sc{ex.vc.Bind("acap2", BV(64), ite(fits, base.cp, ncap)), BV(64)},
	}}
	return res
}

// arrayDef states that array `name` (already declared) has, at every index qi
// (inside `domain` when given), the element `body` (a term over qi). The
// command carries a marker so that the renderer can use a lambda definition
// instead when it searches for candidate counterexamples.
func (ex *Exec) arrayDef(st *State, name string, s Sort, body string, domain string) {
	inner := eq(sel(name, "qi"), body)
	if domain != "" {
		inner = implies(domain, inner)
	}
	q := fmt.Sprintf("(forall ((qi (_ BitVec 64))) (! %s :pattern ((select %s qi))))", inner, name)
	marker := ";LAMBDA"
	if domain != "" {
		marker = ";LAMBDAD" // defined on a sub-domain only: never turned into a total lambda
	}
	ex.vc.cmds = append(ex.vc.cmds, fmt.Sprintf("(assert %s) %s %s|%s|%s", implies(st.guard, q), marker, name, s, body))
}
