package main

// SMT-LIB term construction. Terms are plain strings; sharing is obtained by
// binding every non-trivial intermediate to a define-fun in the VC script, so
// the script stays linear in the size of the function.

import (
	"fmt"
	"math/big"
	"strconv"
	"strings"
)

type Sort string

const (
	SBool Sort = "Bool"
	SRef  Sort = "(_ BitVec 64)"
	SFP   Sort = "(_ FloatingPoint 11 53)"
	SStr  Sort = "Str"
)

func BV(n int) Sort { return Sort(fmt.Sprintf("(_ BitVec %d)", n)) }

func ArrS(i, e Sort) Sort { return Sort(fmt.Sprintf("(Array %s %s)", i, e)) }

func (s Sort) IsBV() bool { return strings.HasPrefix(string(s), "(_ BitVec ") }

func (s Sort) Width() int {
	var n int
	if _, err := fmt.Sscanf(string(s), "(_ BitVec %d)", &n); err != nil {
		panic("not a bitvector sort: " + string(s))
	}
	return n
}

func (s Sort) IsArr() bool { return strings.HasPrefix(string(s), "(Array ") }

// ArrParts splits "(Array I E)" into I and E.
func (s Sort) ArrParts() (Sort, Sort) {
	str := string(s)
	str = str[len("(Array ") : len(str)-1]
	// first sort ends where paren depth returns to zero
	depth := 0
	for i, c := range str {
		switch c {
		case '(':
			depth++
		case ')':
			depth--
		case ' ':
			if depth == 0 {
				return Sort(str[:i]), Sort(str[i+1:])
			}
		}
	}
	panic("bad array sort " + string(s))
}

func bvLit(v *big.Int, w int) string {
	m := new(big.Int).Lsh(big.NewInt(1), uint(w))
	x := new(big.Int).Mod(v, m)
	if x.Sign() < 0 {
		x.Add(x, m)
	}
	if w%4 == 0 {
		return fmt.Sprintf("#x%0*s", w/4, x.Text(16))
	}
	return fmt.Sprintf("#b%0*s", w, x.Text(2))
}

func bvInt(v int64, w int) string { return bvLit(big.NewInt(v), w) }

func bvU(v uint64, w int) string { return bvLit(new(big.Int).SetUint64(v), w) }

func app(op string, args ...string) string {
	if len(args) == 2 {
		if r, ok := foldBV(op, args[0], args[1]); ok {
			return r
		}
	}
	return "(" + op + " " + strings.Join(args, " ") + ")"
}

func litWidth(t string) (uint64, int, bool) {
	if len(t) < 3 || t[0] != '#' {
		return 0, 0, false
	}
	switch t[1] {
	case 'x':
		if len(t)-2 > 16 {
			return 0, 0, false
		}
		v, err := strconv.ParseUint(t[2:], 16, 64)
		return v, (len(t) - 2) * 4, err == nil
	case 'b':
		if len(t)-2 > 64 {
			return 0, 0, false
		}
		v, err := strconv.ParseUint(t[2:], 2, 64)
		return v, len(t) - 2, err == nil
	}
	return 0, 0, false
}

// foldBV folds operations on bit-vector literals (width <= 64) and a few
// identities. Semantics are those of SMT-LIB.
func foldBV(op, a, b string) (string, bool) {
	x, wa, oka := litWidth(a)
	y, wb, okb := litWidth(b)
	if oka && okb && wa == wb {
		w := wa
		mask := ^uint64(0)
		if w < 64 {
			mask = (uint64(1) << uint(w)) - 1
		}
		sx := func(v uint64) int64 {
			if w < 64 && v&(uint64(1)<<uint(w-1)) != 0 {
				return int64(v | ^mask)
			}
			return int64(v)
		}
		bl := func(c bool) (string, bool) {
			if c {
				return "true", true
			}
			return "false", true
		}
		switch op {
		case "bvadd":
			return bvU((x+y)&mask, w), true
		case "bvsub":
			return bvU((x-y)&mask, w), true
		case "bvmul":
			return bvU((x*y)&mask, w), true
		case "bvult":
			return bl(x < y)
		case "bvule":
			return bl(x <= y)
		case "bvugt":
			return bl(x > y)
		case "bvuge":
			return bl(x >= y)
		case "bvslt":
			return bl(sx(x) < sx(y))
		case "bvsle":
			return bl(sx(x) <= sx(y))
		case "bvsgt":
			return bl(sx(x) > sx(y))
		case "bvsge":
			return bl(sx(x) >= sx(y))
		case "=":
			return bl(x == y)
		}
		return "", false
	}
	switch op {
	case "bvadd":
		if oka && x == 0 {
			return b, true
		}
		if okb && y == 0 {
			return a, true
		}
	case "bvsub":
		if okb && y == 0 {
			return a, true
		}
	}
	return "", false
}

func and(args ...string) string {
	var out []string
	for _, a := range args {
		if a == "true" {
			continue
		}
		if a == "false" {
			return "false"
		}
		out = append(out, a)
	}
	switch len(out) {
	case 0:
		return "true"
	case 1:
		return out[0]
	}
	return app("and", out...)
}

func or(args ...string) string {
	var out []string
	for _, a := range args {
		if a == "false" {
			continue
		}
		if a == "true" {
			return "true"
		}
		out = append(out, a)
	}
	switch len(out) {
	case 0:
		return "false"
	case 1:
		return out[0]
	}
	return app("or", out...)
}

func not(a string) string {
	switch a {
	case "true":
		return "false"
	case "false":
		return "true"
	}
	if strings.HasPrefix(a, "(not ") {
		return a[5 : len(a)-1]
	}
	return app("not", a)
}

func implies(a, b string) string {
	if a == "true" {
		return b
	}
	if a == "false" || b == "true" {
		return "true"
	}
	return app("=>", a, b)
}

func ite(c, a, b string) string {
	if a == "true" && b == "false" {
		return c
	}
	if c == "true" {
		return a
	}
	if c == "false" {
		return b
	}
	if a == b {
		return a
	}
	return app("ite", c, a, b)
}

func eq(a, b string) string {
	if a == b {
		return "true"
	}
	if r, ok := foldBV("=", a, b); ok {
		return r
	}
	return "(= " + a + " " + b + ")"
}

func sel(a, i string) string { return app("select", a, i) }

func sto(a, i, v string) string { return app("store", a, i, v) }

func extract(hi, lo int, t string) string {
	return fmt.Sprintf("((_ extract %d %d) %s)", hi, lo, t)
}

func zext(n int, t string) string {
	if n == 0 {
		return t
	}
	return fmt.Sprintf("((_ zero_extend %d) %s)", n, t)
}

func sext(n int, t string) string {
	if n == 0 {
		return t
	}
	return fmt.Sprintf("((_ sign_extend %d) %s)", n, t)
}

// resize converts a bit-vector term of width from to width to, extending by
// signedness.
func resize(t string, from, to int, signed bool) string {
	switch {
	case from == to:
		return t
	case from > to:
		return extract(to-1, 0, t)
	case signed:
		return sext(to-from, t)
	default:
		return zext(to-from, t)
	}
}

// zeroOf returns the zero term of a sort.
func zeroOf(s Sort) string {
	switch {
	case s == SBool:
		return "false"
	case s == SFP:
		return "(_ +zero 11 53)"
	case s == SStr:
		return "Str_empty"
	case s.IsBV():
		return bvInt(0, s.Width())
	case s.IsArr():
		i, e := s.ArrParts()
		if e == SStr && i == BV(64) {
			return "ZeroStrArr" // cvc5 rejects constant arrays of an uninterpreted constant
		}
		return fmt.Sprintf("((as const %s) %s)", s, zeroOf(e))
	}
	panic("zeroOf: " + string(s))
}
