package main

// Evaluation of contract expressions to SMT terms over the executor's value
// domain.

import (
	"fmt"
	"go/constant"
	"go/token"
	"go/types"
	"math/big"
	"sort"
	"strconv"
	"strings"

	"golang.org/x/tools/go/ssa"
)

var bigOne = big.NewInt(1)

type TVal struct {
	V Val
	T types.Type // nil for untyped integer constants
	C *big.Int   // value of an untyped constant
	A *Addr      // when the expression denotes an addressable location
}

type evalCtx struct {
	ex            *Exec
	fr            *Frame
	st            *State
	old           *State
	env           map[string]TVal
	lets          map[string]Expr
	results       []TVal
	pkg           *types.Package
	depth         int
	bound         map[string]bool
	rawMaps       bool // map lookups without the presence test (pattern terms)
	goEq          bool // == on aggregates with Go's IEEE semantics for float fields
	cellsFallback *State
}

type evalErr struct{ msg string }

func (c *evalCtx) errf(format string, a ...interface{}) {
	panic(evalErr{fmt.Sprintf(format, a...)})
}

func (ex *Exec) newCtx(fr *Frame, st, old *State, results []Val) *evalCtx {
	c := &evalCtx{ex: ex, fr: fr, st: st, old: old, env: map[string]TVal{}, lets: map[string]Expr{}}
	if ex.exitFallback != nil && fr == ex.topFrame {
		c.cellsFallback = ex.exitFallback
	}
	fn := fr.fn
	pkg := fn.Pkg
	for f := fn; pkg == nil && f != nil; f = f.Parent() {
		pkg = f.Pkg
	}
	if pkg != nil {
		c.pkg = pkg.Pkg
	}
	// parameters denote their entry values
	for i, p := range fn.Params {
		if i < len(fr.params) {
			c.env[p.Name()] = TVal{V: fr.params[i], T: p.Type()}
		}
	}
	// captured variables of a closure denote their current content
	for _, fv := range fn.FreeVars {
		if r, ok := fr.regs[fv]; ok {
			if ref, isRef := r.(Sc); isRef {
				pt := fv.Type().Underlying().(*types.Pointer)
				addr := rootAddr(ref.T, fv.Type())
				c.env[fv.Name()] = TVal{V: ex.load(st, addr), T: pt.Elem(), A: addr}
			} else if p, isCell := r.(*PtrI); isCell {
				// a captured local kept as a cell of the enclosing function
				if pt, ok := fv.Type().Underlying().(*types.Pointer); ok {
					if p.A.Kind != ACell || st.cells[p.A.Cell] != nil {
						c.env[fv.Name()] = TVal{V: ex.load(st, p.A), T: pt.Elem(), A: p.A}
					}
				}
			}
		}
	}
	if results != nil {
		sig := fn.Signature.Results()
		for i := 0; i < sig.Len() && i < len(results); i++ {
			tv := TVal{V: results[i], T: sig.At(i).Type()}
			c.results = append(c.results, tv)
			c.env[fmt.Sprintf("result%d", i)] = tv
			if sig.At(i).Name() != "" {
				if _, shadow := c.env[sig.At(i).Name()]; !shadow {
					c.env[sig.At(i).Name()] = tv
				}
			}
		}
		if len(c.results) == 1 {
			c.env["result"] = c.results[0]
		}
	}
	ct := fr.ct
	if ct == nil {
		ct = ex.db.funcs[funcName(fn)]
	}
	if ct != nil {
		for _, l := range ct.Lets {
			c.lets[l.Name] = l.Body
		}
	}
	return c
}

// evalBool evaluates a clause in the given frame and states.
func (ex *Exec) evalBool(fr *Frame, st, old *State, results []Val, e Expr) string {
	c := ex.newCtx(fr, st, old, results)
	return c.boolTerm(e)
}

func (c *evalCtx) boolTerm(e Expr) string {
	v := c.eval(e)
	s, ok := v.V.(Sc)
	if !ok || s.S != SBool {
		c.errf("expected a boolean expression")
	}
	return s.T
}

func (c *evalCtx) withState(st *State) *evalCtx {
	n := *c
	n.st = st
	if n.cellsFallback == nil {
		// locals that did not exist yet in the older state (old / atlock) are
		// read from the state the clause is evaluated in
		n.cellsFallback = c.st
	}
	return &n
}

func (c *evalCtx) resolveType(te TypeExpr) types.Type {
	t := te.Text
	switch {
	case strings.HasPrefix(t, "*"):
		return types.NewPointer(c.resolveType(TypeExpr{t[1:]}))
	case strings.HasPrefix(t, "[]"):
		return types.NewSlice(c.resolveType(TypeExpr{t[2:]}))
	case strings.HasPrefix(t, "["):
		i := strings.Index(t, "]")
		n, _ := strconv.ParseInt(t[1:i], 10, 64)
		return types.NewArray(c.resolveType(TypeExpr{t[i+1:]}), n)
	case strings.HasPrefix(t, "map["):
		depth := 0
		for i, ch := range t {
			if ch == '[' {
				depth++
			} else if ch == ']' {
				depth--
				if depth == 0 {
					return types.NewMap(c.resolveType(TypeExpr{t[4:i]}), c.resolveType(TypeExpr{t[i+1:]}))
				}
			}
		}
	}
	if i := strings.Index(t, "."); i >= 0 {
		p := c.findPkg(t[:i])
		if p == nil {
			c.errf("unknown package %q in type %q", t[:i], t)
		}
		o := p.Scope().Lookup(t[i+1:])
		if o == nil {
			c.errf("unknown type %q", t)
		}
		return o.Type()
	}
	if o := types.Universe.Lookup(t); o != nil {
		if tn, ok := o.(*types.TypeName); ok {
			return tn.Type()
		}
	}
	if c.pkg != nil {
		if o := c.pkg.Scope().Lookup(t); o != nil {
			return o.Type()
		}
	}
	c.errf("unknown type %q", t)
	return nil
}

func (c *evalCtx) findPkg(name string) *types.Package {
	if c.pkg == nil {
		return nil
	}
	if c.pkg.Name() == name {
		return c.pkg
	}
	for _, imp := range c.pkg.Imports() {
		if imp.Name() == name {
			return imp
		}
	}
	// search the whole program (contracts may mention packages the file does not import)
	for _, p := range c.ex.ld.prog.AllPackages() {
		if p.Pkg.Name() == name && (strings.HasPrefix(p.Pkg.Path(), modulePath) || p.Pkg.Path() == name) {
			return p.Pkg
		}
	}
	return nil
}

func untyped(v *big.Int) TVal { return TVal{C: new(big.Int).Set(v)} }

func boolTV(t string) TVal { return TVal{V: Sc{t, SBool}, T: types.Typ[types.Bool]} }

// coerce turns an untyped constant into a value of type t.
func (c *evalCtx) coerce(v TVal, t types.Type) TVal {
	if v.C == nil {
		return v
	}
	if t == nil {
		t = types.Typ[types.Int]
	}
	switch kindOf(t) {
	case KScalar:
		s := scalarSort(t)
		if s.IsBV() {
			return TVal{V: Sc{bvLit(v.C, s.Width()), s}, T: t}
		}
		if s == SFP {
			f, _ := new(big.Float).SetInt(v.C).Float64()
			return TVal{V: Sc{fpLit(f), SFP}, T: t}
		}
	case KTime:
		return TVal{V: Sc{bvLit(v.C, 64), BV(64)}, T: t}
	case KPtr, KMap, KIface, KFunc, KOpaque:
		if v.C.Sign() == 0 {
			return TVal{V: Sc{z64(), SRef}, T: t}
		}
	case KPacked:
		s := scalarSort(t)
		return TVal{V: Sc{bvLit(v.C, s.Width()), s}, T: t}
	case KSlice:
		if v.C.Sign() == 0 {
			return TVal{V: zeroVal(t), T: t}
		}
	}
	c.errf("cannot use constant %v as %v", v.C, t)
	return v
}

// coerceLike gives constant k the type and the actual bit width of v (which
// may be a widened vector).
func (c *evalCtx) coerceLike(k TVal, v TVal) TVal {
	if s, ok := v.V.(Sc); ok && s.S.IsBV() {
		return TVal{V: Sc{bvLit(k.C, s.S.Width()), s.S}, T: v.T}
	}
	return c.coerce(k, v.T)
}

func (c *evalCtx) lookupIdent(name string) (TVal, bool) {
	if v, ok := c.env[name]; ok {
		return v, true
	}
	if e, ok := c.lets[name]; ok {
		return c.eval(e), true
	}
	if strings.HasPrefix(name, "$") {
		return TVal{V: Sc{c.ex.ghostComp(c.st, name), BV(64)}, T: types.Typ[types.Uint64]}, true
	}
	switch name {
	case "true":
		return boolTV("true"), true
	case "false":
		return boolTV("false"), true
	case "nil":
		return untyped(big.NewInt(0)), true
	}
	// locals by name (loop invariants): current cell content. When several
	// locals share the name (hidden range variables, shadowing), the one
	// declared last in block order is meant; name$k selects the k-th before it.
	if c.fr != nil {
		base, skip := name, 0
		if i := strings.LastIndex(name, "$"); i > 0 {
			if k, err := strconv.Atoi(name[i+1:]); err == nil {
				base, skip = name[:i], k
			}
		}
		var cands []*ssa.Alloc
		cellSrc := c.st
		for a := range c.st.cells {
			if a.Parent() == c.fr.fn && a.Comment == base && !c.ex.invLoopBlocks[a.Block()] {
				cands = append(cands, a)
			}
		}
		if len(cands) == 0 && c.cellsFallback != nil {
			cellSrc = c.cellsFallback
			for a := range cellSrc.cells {
				if a.Parent() == c.fr.fn && a.Comment == base && !c.ex.invLoopBlocks[a.Block()] {
					cands = append(cands, a)
				}
			}
		}
		order := func(a *ssa.Alloc) int {
			b := a.Block()
			for i, in := range b.Instrs {
				if in == a {
					return b.Index*100000 + i
				}
			}
			return b.Index * 100000
		}
		sort.Slice(cands, func(i, j int) bool { return order(cands[i]) > order(cands[j]) })
		if skip < len(cands) {
			best := cands[skip]
			t := best.Type().Underlying().(*types.Pointer).Elem()
			return TVal{V: cellSrc.cells[best], T: t, A: &Addr{Kind: ACell, Cell: best, ArrLen: -1}}, true
		}
		// escaping locals (heap allocs) by name
		for v, rv := range c.fr.regs {
			if a, ok := v.(*ssa.Alloc); ok && a.Heap && !cellLike(a) && a.Comment == name {
				t := a.Type().Underlying().(*types.Pointer).Elem()
				addr := rootAddr(sc(rv).T, a.Type())
				return TVal{V: c.ex.load(c.st, addr), T: t, A: addr}, true
			}
		}
	}
	if c.pkg != nil {
		if o := c.pkg.Scope().Lookup(name); o != nil {
			return c.objVal(o)
		}
	}
	return TVal{}, false
}

func (c *evalCtx) objVal(o types.Object) (TVal, bool) {
	switch x := o.(type) {
	case *types.Const:
		cv := x.Val()
		if cv.Kind() == constant.Int {
			bi, _ := new(big.Int).SetString(cv.ExactString(), 10)
			if b, ok := x.Type().(*types.Basic); ok && b.Info()&types.IsUntyped != 0 {
				return untyped(bi), true
			}
			return c.coerce(untyped(bi), x.Type()), true
		}
		if cv.Kind() == constant.Float {
			if iv := constant.ToInt(cv); iv.Kind() == constant.Int {
				bi, _ := new(big.Int).SetString(iv.ExactString(), 10)
				return untyped(bi), true
			}
		}
		if cv.Kind() == constant.String {
			return TVal{V: Sc{c.ex.strLit(constant.StringVal(cv)), SStr}, T: types.Typ[types.String]}, true
		}
		if cv.Kind() == constant.Bool {
			if constant.BoolVal(cv) {
				return boolTV("true"), true
			}
			return boolTV("false"), true
		}
	case *types.Var:
		// package-level variable
		for _, p := range c.ex.ld.prog.AllPackages() {
			if p.Pkg == x.Pkg() {
				if g, ok := p.Members[x.Name()].(*ssa.Global); ok {
					a := &Addr{Kind: AGlobal, Glob: g, ArrLen: -1}
					return TVal{V: c.ex.load(c.st, a), T: x.Type(), A: a}, true
				}
			}
		}
	}
	return TVal{}, false
}

func (c *evalCtx) eval(e Expr) TVal {
	c.depth++
	defer func() { c.depth-- }()
	if c.depth > 200 {
		c.errf("contract expression too deep (recursive pure function?)")
	}
	switch x := e.(type) {
	case *EInt:
		return untyped(x.V)
	case *EStr:
		return TVal{V: Sc{c.ex.strLit(x.S), SStr}, T: types.Typ[types.String]}
	case *EIdent:
		v, ok := c.lookupIdent(x.Name)
		if !ok {
			c.errf("contract mentions unknown name %q (function %s)", x.Name, funcName(c.fr.fn))
		}
		return v
	case *ESel:
		return c.evalSel(x)
	case *EIndex:
		return c.evalIndex(x)
	case *EUn:
		return c.evalUn(x)
	case *EBin:
		return c.evalBin(x)
	case *ECond:
		cond := c.boolTerm(x.C)
		a, b := c.eval(x.A), c.eval(x.B)
		a, b = c.unify(a, b)
		return TVal{V: leafZip(a.V, b.V, func(p, q Sc) Sc { return Sc{ite(cond, p.T, q.T), p.S} }), T: a.T}
	case *EQuant:
		return c.evalQuant(x)
	case *ECall:
		return c.evalCall(x)
	}
	c.errf("unsupported contract expression %T", e)
	return TVal{}
}

func (c *evalCtx) unify(a, b TVal) (TVal, TVal) {
	switch {
	case a.C != nil && b.C != nil:
		return c.coerce(a, nil), c.coerce(b, nil)
	case a.C != nil:
		return c.coerceLike(a, b), b
	case b.C != nil:
		return a, c.coerceLike(b, a)
	}
	return a, b
}

func (c *evalCtx) evalSel(x *ESel) TVal {
	// package qualifier?
	if id, ok := x.X.(*EIdent); ok {
		if _, isVar := c.lookupIdentQuiet(id.Name); !isVar {
			if p := c.findPkg(id.Name); p != nil {
				o := p.Scope().Lookup(x.Name)
				if o == nil {
					c.errf("unknown name %s.%s", id.Name, x.Name)
				}
				v, ok := c.objVal(o)
				if !ok {
					c.errf("cannot evaluate %s.%s", id.Name, x.Name)
				}
				return v
			}
			if id.Name == "math" {
				switch x.Name {
				case "MaxInt64":
					return untyped(new(big.Int).Sub(new(big.Int).Lsh(bigOne, 63), bigOne))
				case "MaxUint64":
					return untyped(new(big.Int).Sub(new(big.Int).Lsh(bigOne, 64), bigOne))
				case "MaxUint32":
					return untyped(new(big.Int).Sub(new(big.Int).Lsh(bigOne, 32), bigOne))
				case "MaxInt32":
					return untyped(new(big.Int).Sub(new(big.Int).Lsh(bigOne, 31), bigOne))
				}
			}
		}
	}
	base := c.eval(x.X)
	if base.T == nil {
		c.errf("selector on constant")
	}
	t := base.T
	// auto-deref
	if pt, ok := t.Underlying().(*types.Pointer); ok {
		st, ok := pt.Elem().Underlying().(*types.Struct)
		if !ok {
			c.errf("selector .%s on pointer to non-struct %v", x.Name, t)
		}
		fi := fieldIndex(st, x.Name)
		if fi < 0 {
			c.errf("type %v has no field %s", pt.Elem(), x.Name)
		}
		var addr *Addr
		switch p := base.V.(type) {
		case Sc:
			addr = rootAddr(p.T, t).ext(PathEl{Field: fi})
		case *PtrI:
			addr = p.A.ext(PathEl{Field: fi})
		default:
			c.errf("selector on %T", base.V)
		}
		ft := st.Field(fi).Type()
		if kindOf(ft) == KOpaque {
			return TVal{V: &PtrI{addr}, T: types.NewPointer(ft), A: addr}
		}
		return TVal{V: c.ex.load(c.st, addr), T: ft, A: addr}
	}
	st, ok := t.Underlying().(*types.Struct)
	if !ok {
		c.errf("selector .%s on non-struct %v", x.Name, t)
	}
	fi := fieldIndex(st, x.Name)
	if fi < 0 {
		c.errf("type %v has no field %s", t, x.Name)
	}
	var addr *Addr
	if base.A != nil {
		addr = base.A.ext(PathEl{Field: fi})
		if ft := st.Field(fi).Type(); kindOf(ft) == KOpaque {
			return TVal{V: &PtrI{addr}, T: types.NewPointer(ft), A: addr}
		}
	}
	return TVal{V: base.V.(*Agg).F[fi], T: st.Field(fi).Type(), A: addr}
}

func (c *evalCtx) lookupIdentQuiet(name string) (TVal, bool) {
	defer func() { recover() }()
	return c.lookupIdent(name)
}

func fieldIndex(st *types.Struct, name string) int {
	for i := 0; i < st.NumFields(); i++ {
		if st.Field(i).Name() == name {
			return i
		}
	}
	return -1
}

func (c *evalCtx) idx64(v TVal) string {
	if v.C != nil {
		return bvLit(v.C, 64)
	}
	s := sc(v.V)
	return resize(s.T, s.S.Width(), 64, isSigned(v.T))
}

func (c *evalCtx) evalIndex(x *EIndex) TVal {
	base := c.eval(x.X)
	if x.I == nil {
		c.errf("[*] is only allowed in assigns clauses")
	}
	iv := c.eval(x.I)
	t := base.T
	switch kindOf(t) {
	case KMap:
		mt := t.Underlying().(*types.Map)
		k := c.coerce(iv, mt.Key())
		if c.rawMaps {
			return TVal{V: c.ex.mapGetRaw(c.st, t, sc(base.V).T, sc(k.V).T), T: mt.Elem()}
		}
		v, _ := c.ex.mapGet(c.st, t, sc(base.V).T, sc(k.V).T)
		return TVal{V: v, T: mt.Elem()}
	case KSlice:
		sv := c.ex.viewSlice(base.V, t)
		a := sv.elemAddr(c.idx64(iv))
		return TVal{V: c.ex.load(c.st, a), T: sv.elemT, A: a}
	case KPtr:
		at, ok := t.Underlying().(*types.Pointer).Elem().Underlying().(*types.Array)
		if !ok {
			c.errf("index of pointer to non-array")
		}
		var a *Addr
		switch p := base.V.(type) {
		case Sc:
			a = rootAddr(p.T, t)
		case *PtrI:
			a = p.A
		}
		a = a.ext(PathEl{IsIdx: true, Idx: c.idx64(iv)})
		return TVal{V: c.ex.load(c.st, a), T: at.Elem(), A: a}
	case KArr:
		el := t.Underlying().(*types.Array).Elem()
		i := c.idx64(iv)
		return TVal{V: leafMap(base.V.(*Arr).E, func(l Sc) Sc { return Sc{sel(l.T, i), peel(l.S, 1)} }), T: el}
	case KPacked:
		return TVal{V: Sc{packedByte(sc(base.V), c.idx64(iv)), BV(8)}, T: types.Typ[types.Uint8]}
	case KStr:
		return TVal{V: Sc{app("Str_at", sc(base.V).T, c.idx64(iv)), BV(8)}, T: types.Typ[types.Uint8]}
	}
	c.errf("cannot index %v", t)
	return TVal{}
}

func (c *evalCtx) evalUn(x *EUn) TVal {
	v := c.eval(x.X)
	switch x.Op {
	case "!":
		return boolTV(not(sc(v.V).T))
	case "-":
		if v.C != nil {
			return untyped(new(big.Int).Neg(v.C))
		}
		s := sc(v.V)
		if s.S == SFP {
			return TVal{V: Sc{app("fp.neg", s.T), SFP}, T: v.T}
		}
		return TVal{V: Sc{app("bvneg", s.T), s.S}, T: v.T}
	case "^":
		if v.C != nil {
			return untyped(new(big.Int).Not(v.C))
		}
		s := sc(v.V)
		return TVal{V: Sc{app("bvnot", s.T), s.S}, T: v.T}
	}
	c.errf("unary %s", x.Op)
	return TVal{}
}

func (c *evalCtx) evalBin(x *EBin) TVal {
	switch x.Op {
	case "==>":
		return boolTV(implies(c.boolTerm(x.X), c.boolTerm(x.Y)))
	case "<==>":
		return boolTV(eq(c.boolTerm(x.X), c.boolTerm(x.Y)))
	case "&&":
		return boolTV(and(c.boolTerm(x.X), c.boolTerm(x.Y)))
	case "||":
		return boolTV(or(c.boolTerm(x.X), c.boolTerm(x.Y)))
	}
	a, b := c.eval(x.X), c.eval(x.Y)
	if a.C != nil && b.C != nil {
		r := new(big.Int)
		switch x.Op {
		case "+":
			r.Add(a.C, b.C)
		case "-":
			r.Sub(a.C, b.C)
		case "*":
			r.Mul(a.C, b.C)
		case "/":
			r.Quo(a.C, b.C)
		case "%":
			r.Rem(a.C, b.C)
		case "<<":
			r.Lsh(a.C, uint(b.C.Uint64()))
		case ">>":
			r.Rsh(a.C, uint(b.C.Uint64()))
		case "&":
			r.And(a.C, b.C)
		case "|":
			r.Or(a.C, b.C)
		case "==", "!=", "<", "<=", ">", ">=":
			cmp := a.C.Cmp(b.C)
			res := map[string]bool{"==": cmp == 0, "!=": cmp != 0, "<": cmp < 0, "<=": cmp <= 0, ">": cmp > 0, ">=": cmp >= 0}[x.Op]
			if res {
				return boolTV("true")
			}
			return boolTV("false")
		default:
			c.errf("constant op %s", x.Op)
		}
		return untyped(r)
	}
	if x.Op == "<<" || x.Op == ">>" {
		if b.C != nil {
			b = c.coerce(b, types.Typ[types.Uint64])
		}
		if a.C != nil {
			a = c.coerce(a, types.Typ[types.Int])
		}
	} else {
		a, b = c.unify(a, b)
	}
	tokOf := map[string]token.Token{"+": token.ADD, "-": token.SUB, "*": token.MUL, "/": token.QUO, "%": token.REM,
		"&": token.AND, "|": token.OR, "^": token.XOR, "&^": token.AND_NOT, "<<": token.SHL, ">>": token.SHR,
		"==": token.EQL, "!=": token.NEQ, "<": token.LSS, "<=": token.LEQ, ">": token.GTR, ">=": token.GEQ}
	tk, ok := tokOf[x.Op]
	if !ok {
		c.errf("binary operator %s", x.Op)
	}
	if tk != token.SHL && tk != token.SHR && tk != token.EQL && tk != token.NEQ {
		sa, sb := sc(a.V), sc(b.V)
		if sa.S != sb.S {
			c.errf("operands of %s have different sorts (%s vs %s) in %v", x.Op, sa.S, sb.S, x)
		}
	} else if tk == token.EQL || tk == token.NEQ {
		if sa, ok := a.V.(Sc); ok {
			if sb, ok := b.V.(Sc); ok && sa.S != sb.S {
				c.errf("operands of %s have different sorts (%s vs %s) in %s", x.Op, sa.S, sb.S, exprText(x))
			}
		}
	}
	// spec-level division does not create obligations
	saved, savedEq := c.ex.noSafety, c.ex.specEq
	c.ex.noSafety = true
	c.ex.specEq = !c.goEq
	defer func() { c.ex.noSafety, c.ex.specEq = saved, savedEq }()
	r := c.ex.binop(c.st, c.fr, tk, a.V, b.V, a.T, b.T, token.NoPos, nil)
	rt := a.T
	if s, ok := r.(Sc); ok && s.S == SBool {
		rt = types.Typ[types.Bool]
	}
	return TVal{V: r, T: rt}
}

func (c *evalCtx) evalQuant(x *EQuant) TVal {
	n := *c
	n.env = map[string]TVal{}
	for k, v := range c.env {
		n.env[k] = v
	}
	var decls []string
	var ranges []string
	for _, qv := range x.Vars {
		t := c.resolveType(qv.Type)
		c.ex.vc.n++
		id := c.ex.vc.n
		v := mkVal(t, fmt.Sprintf("q%d_%s", id, qv.Name), nil, func(path string, s Sort) string {
			nm := sanitize(path)
			decls = append(decls, fmt.Sprintf("(%s %s)", nm, s))
			return nm
		})
		n.env[qv.Name] = TVal{V: v, T: t}
		// int-typed bound variables range over non-negative... no: leave unrestricted
	}
	c.ex.vc.noBind++
	body := func() string {
		defer func() { c.ex.vc.noBind-- }()
		return n.boolTerm(x.Body)
	}()
	_ = ranges
	q := "forall"
	if !x.Forall {
		q = "exists"
	}
	if len(x.Triggers) > 0 {
		c.ex.vc.noBind++
		attrs := ""
		for _, set := range append([][]Expr{x.Triggers}, x.AltTriggers...) {
			var pats []string
			for _, t := range set {
				pats = append(pats, n.patternTerm(t))
			}
			attrs += fmt.Sprintf(" :pattern (%s)", strings.Join(pats, " "))
		}
		c.ex.vc.noBind--
		body = fmt.Sprintf("(! %s%s)", body, attrs)
	}
	return boolTV(fmt.Sprintf("(%s (%s) %s)", q, strings.Join(decls, " "), body))
}

// patternTerm turns a trigger expression into a term usable as an SMT pattern
// (a select / function application without logical connectives).
func (c *evalCtx) patternTerm(e Expr) string {
	switch x := e.(type) {
	case *ECall:
		if x.Fn == "in" && len(x.Args) == 2 {
			k, m := c.eval(x.Args[0]), c.eval(x.Args[1])
			mt := m.T.Underlying().(*types.Map)
			k = c.coerce(k, mt.Key())
			mi := c.ex.mapInfo(m.T)
			return sel(c.ex.mapDom(c.st, mi, sc(m.V).T), sc(k.V).T)
		}
		if x.Fn == "old" {
			return c.withState(c.old).patternTerm(x.Args[0])
		}
	case *EIndex:
		base := c.eval(x.X)
		if kindOf(base.T) == KMap {
			mt := base.T.Underlying().(*types.Map)
			k := c.coerce(c.eval(x.I), mt.Key())
			v := c.ex.mapGetRaw(c.st, base.T, sc(base.V).T, sc(k.V).T)
			return leavesOf(v)[0].T
		}
	}
	n := *c
	n.rawMaps = true
	v := n.eval(e)
	ls := leavesOf(v.V)
	if len(ls) == 0 {
		c.errf("trigger expression has no term")
	}
	return ls[0].T
}

func (c *evalCtx) evalCall(x *ECall) TVal {
	arg := func(i int) TVal {
		if i >= len(x.Args) {
			c.errf("%s: missing argument %d", x.Fn, i)
		}
		return c.eval(x.Args[i])
	}
	switch x.Fn {
	case "old":
		if c.old == nil {
			c.errf("old() used where no pre-state exists")
		}
		return c.withState(c.old).eval(x.Args[0])
	case "atlock":
		if c.st.lockSnap == nil {
			c.errf("atlock() used where no Lock() has happened on the path")
		}
		return c.withState(c.st.lockSnap).eval(x.Args[0])
	case "now":
		// now(p): the current value of the local variable that holds parameter p
		// (a bare parameter name denotes its value at function entry)
		id, ok := x.Args[0].(*EIdent)
		if !ok {
			c.errf("now() expects a parameter name")
		}
		n := *c
		n.env = map[string]TVal{}
		for k, v := range c.env {
			if k != id.Name {
				n.env[k] = v
			}
		}
		v, found := n.lookupIdent(id.Name)
		if !found {
			// never reassigned: the entry value is the current value
			return c.eval(id)
		}
		return v
	case "atiter":
		if c.st.iterSnap == nil {
			c.errf("atiter() used outside a backedge clause")
		}
		return c.withState(c.st.iterSnap).eval(x.Args[0])
	case "strbytes":
		lit, ok := x.Args[0].(*EStr)
		if !ok {
			c.errf("strbytes() needs a string literal")
		}
		v := new(big.Int)
		for i := len(lit.S) - 1; i >= 0; i-- {
			v.Lsh(v, 8)
			v.Or(v, big.NewInt(int64(lit.S[i])))
		}
		n := 8 * len(lit.S)
		return TVal{V: Sc{bvLit(v, n), BV(n)}, T: types.Typ[types.Uint64]}
	case "cat":
		// concatenation in memory order: the first argument occupies the lowest addresses
		var parts []string
		w := 0
		for i := len(x.Args) - 1; i >= 0; i-- {
			v := c.eval(x.Args[i])
			if v.C != nil {
				c.errf("cat(): untyped constant argument (convert it)")
			}
			if s, isStr := v.V.(Sc); isStr && s.S == SFP {
				// float64 fields are laid out by their IEEE bit pattern
				parts = append(parts, c.ex.f64bits(s.T))
				w += 64
				continue
			}
			s := sc(v.V)
			if !s.S.IsBV() {
				c.errf("cat(): argument %d is not a bit-vector", i)
			}
			parts = append(parts, s.T)
			w += s.S.Width()
		}
		t := parts[0]
		if len(parts) > 1 {
			t = "(concat " + strings.Join(parts, " ") + ")"
		}
		return TVal{V: Sc{t, BV(w)}, T: types.Typ[types.Uint64]}
	case "bytesAt":
		// bytesAt(slice, off, n): the n bytes slice[off:off+n] as a packed vector (n constant)
		sl, off, nn := arg(0), arg(1), arg(2)
		if nn.C == nil {
			c.errf("bytesAt(): length must be a constant")
		}
		n := int(nn.C.Int64())
		read, _ := c.ex.elemReader(c.st, sl.V, sl.T)
		o := c.idx64(off)
		parts := make([]string, 0, n)
		for i := n - 1; i >= 0; i-- {
			parts = append(parts, sc(read(app("bvadd", o, bvInt(int64(i), 64)))).T)
		}
		t := parts[0]
		if len(parts) > 1 {
			t = "(concat " + strings.Join(parts, " ") + ")"
		}
		return TVal{V: Sc{t, BV(8 * n)}, T: types.Typ[types.Uint64]}
	case "bytesidAt":
		// bytesidAt(s, lo, n): identity of the n bytes s[lo:lo+n] (n may be symbolic)
		sl, lo, nn := arg(0), arg(1), arg(2)
		sv := c.ex.viewSlice(sl.V, sl.T)
		if !sv.root {
			c.errf("bytesidAt(): not a heap slice")
		}
		m := sc(c.ex.heapTree(c.st, AElems, sv.elemT)).T
		return TVal{V: Sc{app("BytesId", sel(m, sv.ref), app("bvadd", sv.off, c.idx64(lo)), c.idx64(nn)), BV(64)}, T: types.Typ[types.Uint64]}
	case "msg":
		v := arg(0)
		s := sc(v.V)
		return TVal{V: Sc{c.ex.msgId(s), BV(64)}, T: types.Typ[types.Uint64]}
	case "len":
		v := arg(0)
		return TVal{V: Sc{c.ex.lenOf(c.st, v.V, v.T), BV(64)}, T: types.Typ[types.Int]}
	case "cap":
		v := arg(0)
		return TVal{V: Sc{c.ex.viewSlice(v.V, v.T).cp, BV(64)}, T: types.Typ[types.Int]}
	case "in":
		k, m := arg(0), arg(1)
		mt, ok := m.T.Underlying().(*types.Map)
		if !ok {
			c.errf("in(k, m): m is not a map")
		}
		k = c.coerce(k, mt.Key())
		mi := c.ex.mapInfo(m.T)
		ref := sc(m.V).T
		return boolTV(and(not(eq(ref, z64())), sel(c.ex.mapDom(c.st, mi, ref), sc(k.V).T)))
	case "card":
		m := arg(0)
		mi := c.ex.mapInfo(m.T)
		return TVal{V: Sc{sel(c.ex.comp(c.st, mi.cardK, mi.cardS), sc(m.V).T), BV(64)}, T: types.Typ[types.Int]}
	case "held":
		v := arg(0)
		k, ok := lockKey(v.V)
		if !ok {
			c.errf("held(): not a mutex")
		}
		return boolTV(lockTerm(c.st, k))
	case "fresh":
		v := arg(0)
		var r string
		switch p := v.V.(type) {
		case Sc:
			r = p.T
		case *Agg:
			r = sc(p.F[0]).T
		default:
			c.errf("fresh(): not a reference")
		}
		return boolTV(and(not(eq(r, z64())), not(sel(c.old.alloc, r))))
	case "filesaved":
		// filesaved(name): identity of the bytes last written to the file of that name
		nm := arg(0)
		cur := c.ex.comp(c.st, ghostFileKey, ghostFileSort())
		return TVal{V: Sc{sel(sel(cur, z64()), sc(nm.V).T), BV(64)}, T: types.Typ[types.Uint64]}
	case "fileline", "filehasline":
		// fileline(content, k): the k-th line of a byte sequence, as bufio.Scanner delivers it
		a, k := arg(0), arg(1)
		c.ex.vc.DeclareFun("FileLine", []Sort{BV(64), BV(64)}, SStr)
		c.ex.vc.DeclareFun("FileHasLine", []Sort{BV(64), BV(64)}, SBool)
		if x.Fn == "filehasline" {
			return boolTV(app("FileHasLine", sc(a.V).T, c.idx64(k)))
		}
		return TVal{V: Sc{app("FileLine", sc(a.V).T, c.idx64(k)), SStr}, T: types.Typ[types.String]}
	case "handlelen":
		h := arg(0)
		hs, ok := h.V.(Sc)
		if !ok {
			c.errf("handlelen(): not a file handle")
		}
		return TVal{V: Sc{sel(c.ex.comp(c.st, handleLenKey, handleLenSort()), hs.T), BV(64)}, T: types.Typ[types.Uint64]}
	case "handlebytes":
		// handlebytes(h, off, n): n bytes (constant) at byte offset off of the file behind h, packed (lowest address in the low bits)
		h, off, nn := arg(0), arg(1), arg(2)
		hs, ok := h.V.(Sc)
		if !ok || nn.C == nil {
			c.errf("handlebytes(handle, off, constant n)")
		}
		n := int(nn.C.Int64())
		bytes := sel(c.ex.comp(c.st, handleBytesKey, handleBytesSort()), hs.T)
		o := c.idx64(off)
		parts := make([]string, 0, n)
		for i := n - 1; i >= 0; i-- {
			parts = append(parts, sel(bytes, app("bvadd", o, bvInt(int64(i), 64))))
		}
		t := parts[0]
		if len(parts) > 1 {
			t = "(concat " + strings.Join(parts, " ") + ")"
		}
		return TVal{V: Sc{t, BV(8 * n)}, T: types.Typ[types.Uint64]}
	case "arccount":
		return TVal{V: Sc{sel(c.ex.comp(c.st, "Ghost_arcCount", ArrS(SRef, BV(64))), z64()), BV(64)}, T: types.Typ[types.Int]}
	case "arcname":
		k := arg(0)
		nm := c.ex.comp(c.st, "Ghost_arcName", ArrS(SRef, ArrS(BV(64), SStr)))
		return TVal{V: Sc{sel(sel(nm, z64()), c.idx64(k)), SStr}, T: types.Typ[types.String]}
	case "arccontent":
		k := arg(0)
		ct := c.ex.comp(c.st, "Ghost_arcContent", ArrS(SRef, ArrS(BV(64), BV(64))))
		return TVal{V: Sc{sel(sel(ct, z64()), c.idx64(k)), BV(64)}, T: types.Typ[types.Uint64]}
	case "udpcount":
		return TVal{V: Sc{sel(c.ex.comp(c.st, "Ghost_udpCount", ArrS(SRef, BV(64))), z64()), BV(64)}, T: types.Typ[types.Int]}
	case "udpat":
		k := arg(0)
		lg := c.ex.comp(c.st, "Ghost_udpLog", ArrS(SRef, ArrS(BV(64), BV(64))))
		return TVal{V: Sc{sel(sel(lg, z64()), c.idx64(k)), BV(64)}, T: types.Typ[types.Uint64]}
	case "Sign":
		// Sign(message identity, private key): the (deterministic) signature function
		m, k := arg(0), arg(1)
		return TVal{V: Sc{app("SignF", sc(m.V).T, sc(k.V).T), BV(512)}, T: types.Typ[types.Uint64]}
	case "fileexists":
		nm := arg(0)
		return boolTV(c.ex.gfile(c.st, sc(nm.V).T).exists())
	case "filelen":
		nm := arg(0)
		return TVal{V: Sc{c.ex.gfile(c.st, sc(nm.V).T).length(), BV(64)}, T: types.Typ[types.Int]}
	case "fileappend":
		// fileappend(content, record): content identity after appending one record
		a, b := arg(0), arg(1)
		c.ex.vc.DeclareFun("FileAppend", []Sort{BV(64), BV(64)}, BV(64))
		return TVal{V: Sc{app("FileAppend", sc(a.V).T, sc(b.V).T), BV(64)}, T: types.Typ[types.Uint64]}
	case "mapid":
		// mapid(m): abstract identity of a map's content (domain and values)
		m := arg(0)
		mi := c.ex.mapInfo(m.T)
		ref := sc(m.V).T
		var sorts []Sort
		var terms []string
		sorts = append(sorts, ArrS(mi.ksort, SBool))
		terms = append(terms, c.ex.mapDom(c.st, mi, ref))
		for _, l := range leavesOf(c.ex.mapValTree(c.st, mi)) {
			_, inner := l.S.ArrParts()
			sorts = append(sorts, inner)
			terms = append(terms, sel(l.T, ref))
		}
		fn := "MapId_" + typeKey(m.T.Underlying())
		c.ex.vc.DeclareFun(fn, sorts, BV(64))
		return TVal{V: Sc{app(fn, terms...), BV(64)}, T: types.Typ[types.Uint64]}
	case "visitedCount":
		var ck string
		if c.ex.curRange != nil {
			ck = fmt.Sprintf("$vcount_%p", c.ex.curRange)
		}
		v, ok := c.st.ghost[ck]
		if !ok {
			c.errf("visitedCount(): no range-over-map statement in scope")
		}
		return TVal{V: v, T: types.Typ[types.Int]}
	case "sumof":
		// sumof(m): the declared ghost sum over the domain of map m
		m := arg(0)
		gs := c.ex.ghostSumFor(m.T)
		if gs == nil {
			c.errf("sumof(): no ghostsum declared for %v", m.T)
		}
		mi := c.ex.mapInfo(m.T)
		ref := sc(m.V).T
		dom := c.ex.mapDom(c.st, mi, ref)
		fn := c.ex.sumFn(gs, mi)
		t := app(fn, dom)
		// facts about finite sums and cardinalities (mathematical truths about the ghosts)
		if c.ex.vc.noBind == 0 {
			card := sel(c.ex.comp(c.st, mi.cardK, mi.cardS), ref)
			c.ex.vc.Assume(and(app("bvsge", card, z64()), implies(not(eq(t, z64())), not(eq(card, z64())))))
			c.ex.vc.Trust("ghost facts: card(m) >= 0, and a non-zero sum over dom(m) implies card(m) != 0")
		}
		return TVal{V: Sc{t, BV(64)}, T: types.Typ[types.Int]}
	case "visited":
		// visited(k): key k has already been produced by the enclosing range-over-map statement
		k := arg(0)
		var gk string
		for name := range c.st.ghost {
			if strings.HasPrefix(name, "$visited_") && (gk == "" || name > gk) {
				gk = name
			}
		}
		if c.ex.curRange != nil {
			if _, ok := c.st.ghost[fmt.Sprintf("$visited_%p", c.ex.curRange)]; ok {
				gk = fmt.Sprintf("$visited_%p", c.ex.curRange)
			}
		}
		if gk == "" {
			c.errf("visited(): no range-over-map statement in scope")
		}
		vis := sc(c.st.ghost[gk])
		ks, _ := vis.S.ArrParts()
		kk := sc(k.V)
		if k.C != nil {
			kk = Sc{bvLit(k.C, ks.Width()), ks}
		}
		return boolTV(sel(vis.T, kk.T))
	case "allocated":
		v := arg(0)
		var r string
		switch p := v.V.(type) {
		case Sc:
			r = p.T
		case *Agg:
			r = sc(p.F[0]).T
		default:
			c.errf("allocated(): not a reference")
		}
		return boolTV(sel(c.st.alloc, r))
	case "goeq":
		n := *c
		n.goEq = true
		return n.evalBin(&EBin{"==", x.Args[0], x.Args[1]})
	case "refof":
		v := arg(0)
		switch p := v.V.(type) {
		case Sc:
			return TVal{V: p, T: types.Typ[types.Uint64]}
		case *Agg:
			return TVal{V: p.F[0], T: types.Typ[types.Uint64]}
		}
		c.errf("refof(): not a reference value")
	case "unchanged":
		var cs []string
		for _, a := range x.Args {
			nv := c.eval(a)
			ov := c.withState(c.old).eval(a)
			c.ex.specEq, c.ex.specBits = true, true
			cs = append(cs, c.ex.valEq(nv.V, ov.V, nv.T))
			c.ex.specEq, c.ex.specBits = false, false
		}
		return boolTV(and(cs...))
	case "same":
		// same(a, b): identical values (for floats: the same value, NaN included; not IEEE ==)
		a, b := arg(0), arg(1)
		a, b = c.unify(a, b)
		c.ex.specEq, c.ex.specBits = true, true
		t := c.ex.valEq(a.V, b.V, a.T)
		c.ex.specEq, c.ex.specBits = false, false
		return boolTV(t)
	case "with":
		base := arg(0)
		st, ok := base.T.Underlying().(*types.Struct)
		if !ok {
			c.errf("with(): not a struct")
		}
		a := base.V.(*Agg)
		n := &Agg{F: append([]Val{}, a.F...)}
		for _, na := range x.Named {
			fi := fieldIndex(st, na.Name)
			if fi < 0 {
				c.errf("with(): no field %s", na.Name)
			}
			n.F[fi] = c.coerce(c.eval(na.E), st.Field(fi).Type()).V
		}
		return TVal{V: n, T: base.T}
	case "ite":
		return c.eval(&ECond{x.Args[0], x.Args[1], x.Args[2]})
	case "sext64", "zext64":
		v := arg(0)
		s := sc(v.V)
		t := types.Typ[types.Int64]
		if x.Fn == "zext64" {
			t = types.Typ[types.Uint64]
		}
		return TVal{V: Sc{resize(s.T, s.S.Width(), 64, x.Fn == "sext64"), BV(64)}, T: t}
	case "bytesid":
		v := arg(0)
		return TVal{V: Sc{c.ex.bytesIdAny(c.st, v.V, v.T), BV(64)}, T: types.Typ[types.Uint64]}
	case "Verify":
		pk, msg, sig := arg(0), arg(1), arg(2)
		return boolTV(app("Verify", sc(pk.V).T, sc(msg.V).T, sc(sig.V).T))
	case "TimeUnix":
		c.ex.vc.DeclareFun("TimeUnix", []Sort{BV(64)}, BV(64))
		return TVal{V: Sc{app("TimeUnix", sc(arg(0).V).T), BV(64)}, T: types.Typ[types.Int64]}
	case "PIVal", "PIErr":
		// the value / failure of strconv.ParseInt(s, 10, 64)
		sv := arg(0)
		c.ex.vc.DeclareFun("PIVal", []Sort{SStr, BV(64), BV(64)}, BV(64))
		c.ex.vc.DeclareFun("PIErr", []Sort{SStr, BV(64), BV(64)}, SBool)
		if x.Fn == "PIErr" {
			return boolTV(app("PIErr", sc(sv.V).T, bvInt(10, 64), bvInt(64, 64)))
		}
		return TVal{V: Sc{app("PIVal", sc(sv.V).T, bvInt(10, 64), bvInt(64, 64)), BV(64)}, T: types.Typ[types.Int64]}
	case "PFVal", "PFErr":
		sv := arg(0)
		c.ex.vc.DeclareFun("PFVal", []Sort{SStr}, SFP)
		c.ex.vc.DeclareFun("PFErr", []Sort{SStr}, SBool)
		if x.Fn == "PFErr" {
			return boolTV(app("PFErr", sc(sv.V).T))
		}
		return TVal{V: Sc{app("PFVal", sc(sv.V).T), SFP}, T: types.Typ[types.Float64]}
	case "fpFitsInt64":
		// the value truncated toward zero lies in [-2^63, 2^63)
		f := sc(arg(0).V).T
		tr := app("fp.roundToIntegral", "RTZ", f)
		lo := app("(_ to_fp 11 53)", "RNE", bvLit(new(big.Int).Neg(new(big.Int).Lsh(bigOne, 63)), 65))
		hi := app("(_ to_fp 11 53)", "RNE", bvLit(new(big.Int).Lsh(bigOne, 63), 65))
		return boolTV(and(app("fp.leq", lo, tr), app("fp.lt", tr, hi)))
	case "fpIsNaN":
		return boolTV(app("fp.isNaN", sc(arg(0).V).T))
	case "fpIsInf":
		return boolTV(app("fp.isInfinite", sc(arg(0).V).T))
	}
	// wideN(e): extend to N bits by the operand's signedness
	if strings.HasPrefix(x.Fn, "wide") {
		if n, err := strconv.Atoi(x.Fn[4:]); err == nil {
			v := arg(0)
			if v.C != nil {
				return TVal{V: Sc{bvLit(v.C, n), BV(n)}, T: wideType(n, v.C.Sign() < 0)}
			}
			s := sc(v.V)
			return TVal{V: Sc{resize(s.T, s.S.Width(), n, isSigned(v.T)), BV(n)}, T: wideType(n, isSigned(v.T))}
		}
	}
	if strings.HasPrefix(x.Fn, "trunc") {
		if n, err := strconv.Atoi(x.Fn[5:]); err == nil {
			v := arg(0)
			if v.C != nil {
				return TVal{V: Sc{bvLit(v.C, n), BV(n)}, T: wideType(n, false)}
			}
			s := sc(v.V)
			return TVal{V: Sc{resize(s.T, s.S.Width(), n, false), BV(n)}, T: wideType(n, false)}
		}
	}
	if strings.HasPrefix(x.Fn, "swide") {
		if n, err := strconv.Atoi(x.Fn[5:]); err == nil {
			v := arg(0)
			if v.C != nil {
				return TVal{V: Sc{bvLit(v.C, n), BV(n)}, T: wideType(n, true)}
			}
			s := sc(v.V)
			return TVal{V: Sc{resize(s.T, s.S.Width(), n, isSigned(v.T)), BV(n)}, T: wideType(n, true)}
		}
	}
	// conversions to basic types
	if o := types.Universe.Lookup(x.Fn); o != nil {
		if tn, ok := o.(*types.TypeName); ok && len(x.Args) == 1 {
			v := arg(0)
			if v.C != nil {
				return c.coerce(v, tn.Type())
			}
			return TVal{V: c.ex.convert(c.st, c.fr, v.V, v.T, tn.Type(), nil), T: tn.Type()}
		}
	}
	// user-defined pure function
	if pf, ok := c.ex.db.pures[x.Fn]; ok {
		if len(x.Args) != len(pf.Params) {
			c.errf("%s: expected %d arguments, got %d", x.Fn, len(pf.Params), len(x.Args))
		}
		if pf.Opaque && !c.ex.revealed[pf.Name] {
			// uninterpreted: only single-leaf parameters and result
			var sorts []Sort
			var terms []string
			n0 := *c
			if p := c.findPkg(pf.Pkg); p != nil {
				n0.pkg = p
			}
			for i, p := range pf.Params {
				pt := n0.resolveType(p.Type)
				a := c.coerce(arg(i), pt)
				s := sc(a.V)
				sorts = append(sorts, s.S)
				terms = append(terms, s.T)
			}
			rt := n0.resolveType(pf.Result)
			rs := scalarSort(rt)
			// widened parameters keep their declared Go type width
			c.ex.vc.DeclareFun("spec_"+pf.Name, sorts, rs)
			return TVal{V: Sc{app("spec_"+pf.Name, terms...), rs}, T: rt}
		}
		n := *c
		n.env = map[string]TVal{}
		n.lets = map[string]Expr{}
		// pure functions see the heap of the calling context and resolve
		// names in their own package
		if p := c.findPkg(pf.Pkg); p != nil {
			n.pkg = p
		}
		for i, p := range pf.Params {
			pt := n.resolveType(p.Type)
			n.env[p.Name] = c.coerce(arg(i), pt)
		}
		r := n.eval(pf.Body)
		if pf.Result.Text != "" {
			r = n.coerce(r, n.resolveType(pf.Result))
		}
		return r
	}
	c.errf("unknown function %q in contract", x.Fn)
	return TVal{}
}

// wideType fabricates a basic type carrying only signedness for widened
// bit-vectors; width is in the value's sort.
func wideType(n int, signed bool) types.Type {
	if signed {
		return types.Typ[types.Int64]
	}
	return types.Typ[types.Uint64]
}
