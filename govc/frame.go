package main

// Package-wide frame obligations: "field F of struct S is written only by
// these functions" and "function f is called only from these functions". They
// are decided over the SSA of every function of the module (all three
// packages, closures included), not by the solver; each clause still becomes
// one named obligation so that it is counted, reported and replayed like the
// others.
//
//	//@ writers[C07] server.GCAServer.gcaPubkey: (*GCAServer).saveGCAKey (*GCAServer).loadGCAPubkey
//	//@ callers[C07] server.(*GCAServer).saveGCAKey: (*GCAServer).registerGCA
//
// A write is any use of the field's address other than a load (a store, a
// slice taken of an array field, the address passed to a call or stored
// somewhere), and any whole-struct store to a value of the owner type. This
// over-approximates: code that only reads through a taken address would be
// reported and has to be listed.

import (
	"fmt"
	"go/types"
	"sort"
	"strings"

	"golang.org/x/tools/go/ssa"
)

type FrameClause struct {
	Kind    string // writers | callers
	Target  string // server.GCAServer.gcaPubkey | server.(*GCAServer).saveGCAKey
	Allowed []string
	Props   []string
	Pkg     string
	Text    string
}

func parseFrameClause(kind, pkg string, props []string, rest string) (*FrameClause, error) {
	i := strings.Index(rest, ":")
	if i < 0 {
		return nil, fmt.Errorf("bad %s clause %q (want TARGET: FUNC...)", kind, rest)
	}
	fc := &FrameClause{Kind: kind, Target: strings.TrimSpace(rest[:i]), Props: props, Pkg: pkg, Text: kind + " " + rest}
	for _, f := range strings.Fields(rest[i+1:]) {
		if !strings.Contains(f, ".") || strings.HasPrefix(f, "(") {
			f = pkg + "." + f
		}
		fc.Allowed = append(fc.Allowed, f)
	}
	return fc, nil
}

func isLoadOnly(v ssa.Value, seen map[ssa.Value]bool) bool {
	if seen[v] {
		return true
	}
	seen[v] = true
	refs := v.Referrers()
	if refs == nil {
		return true
	}
	for _, r := range *refs {
		switch u := r.(type) {
		case *ssa.DebugRef:
		case *ssa.UnOp:
			// *addr : a load
		case *ssa.IndexAddr:
			// &field[i]: reading or writing an element
			if u.X != v || !isLoadOnly(u, seen) {
				return false
			}
		case *ssa.FieldAddr:
			if u.X != v || !isLoadOnly(u, seen) {
				return false
			}
		default:
			return false
		}
	}
	return true
}

func ownerTypeName(t types.Type) string {
	if p, ok := t.Underlying().(*types.Pointer); ok {
		t = p.Elem()
	}
	return ownerName(t)
}

// fieldWriters returns the functions that may write field `field` of the
// struct type named owner ("server.GCAServer").
func fieldWriters(ld *Loader, owner, field string) []string {
	out := map[string]bool{}
	for name, fn := range ld.funcs {
		for _, b := range fn.Blocks {
			for _, in := range b.Instrs {
				switch x := in.(type) {
				case *ssa.FieldAddr:
					st, ok := x.X.Type().Underlying().(*types.Pointer)
					if !ok {
						continue
					}
					if ownerName(st.Elem()) != owner {
						continue
					}
					sst, ok := st.Elem().Underlying().(*types.Struct)
					if !ok || sst.Field(x.Field).Name() != field {
						continue
					}
					if !isLoadOnly(x, map[ssa.Value]bool{}) {
						out[name] = true
					}
				case *ssa.Store:
					if ownerName(x.Val.Type()) == owner {
						// whole-struct assignment: unless it initialises a fresh local
						// composite literal (Alloc in the same function that is only
						// then published), it overwrites every field
						if a, ok := x.Addr.(*ssa.Alloc); ok && a.Parent() == fn {
							continue
						}
						out[name] = true
					}
				}
			}
		}
	}
	var r []string
	for k := range out {
		r = append(r, k)
	}
	sort.Strings(r)
	return r
}

// callersOf returns the functions that call or take the value of target.
func callersOf(ld *Loader, target string) ([]string, bool) {
	tf := ld.funcs[target]
	if tf == nil {
		return nil, false
	}
	out := map[string]bool{}
	for name, fn := range ld.funcs {
		for _, b := range fn.Blocks {
			for _, in := range b.Instrs {
				if ci, ok := in.(ssa.CallInstruction); ok {
					if ci.Common().StaticCallee() == tf {
						out[name] = true
					}
				}
				// the function used as a value (method value, closure binding, argument)
				for _, op := range in.Operands(nil) {
					if op == nil || *op == nil {
						continue
					}
					if f, ok := (*op).(*ssa.Function); ok && f == tf {
						if ci, isCall := in.(ssa.CallInstruction); isCall && ci.Common().Value == f {
							continue
						}
						out[name] = true
					}
				}
			}
		}
	}
	var r []string
	for k := range out {
		r = append(r, k)
	}
	sort.Strings(r)
	return r, true
}

// frameObligation decides one clause and wraps the verdict as an obligation.
func frameObligation(ld *Loader, fc *FrameClause) *Obl {
	vc := newVC("frame:" + fc.Target)
	var found []string
	ok := true
	detail := ""
	switch fc.Kind {
	case "writers":
		i := strings.LastIndex(fc.Target, ".")
		if i < 0 {
			ok, detail = false, "bad target"
			break
		}
		owner, field := fc.Target[:i], fc.Target[i+1:]
		// the field must exist (a renamed field must not make the clause vacuous)
		exists := false
		for _, p := range ld.prog.AllPackages() {
			if p.Pkg.Name() != fc.Pkg {
				continue
			}
			if tn, isT := p.Pkg.Scope().Lookup(owner[strings.Index(owner, ".")+1:]).(*types.TypeName); isT {
				if st, isS := tn.Type().Underlying().(*types.Struct); isS && fieldIndex(st, field) >= 0 {
					exists = true
				}
			}
		}
		if !exists {
			ok, detail = false, "no such field (contract out of date)"
			break
		}
		found = fieldWriters(ld, owner, field)
	case "callers":
		var have bool
		found, have = callersOf(ld, fc.Target)
		if !have {
			ok, detail = false, "no such function (contract out of date)"
		}
	}
	allowed := map[string]bool{}
	for _, a := range fc.Allowed {
		allowed[a] = true
	}
	var extra []string
	for _, f := range found {
		if !allowed[f] {
			extra = append(extra, f)
			ok = false
		}
	}
	goal := "true"
	if !ok {
		goal = "false"
	}
	o := &Obl{Name: fmt.Sprintf("%s/frame(%s) «%s: %s»#1", fc.Pkg, fc.Kind, fc.Target, strings.Join(fc.Allowed, " ")), Kind: "frame-" + fc.Kind, Func: fc.Pkg + ".frame:" + fc.Target,
		Guard: "true", Goal: goal, Prefix: 0, vc: vc, Src: fc.Text, Props: fc.Props}
	if !ok {
		o.Model = fmt.Sprintf("not in the allowed set: %s %s (found: %s)", strings.Join(extra, " "), detail, strings.Join(found, " "))
		o.FrameDetail = o.Model
	}
	vc.obls = append(vc.obls, o)
	return o
}
