package main

// Package-wide frame obligations: "field F of struct S is written only by
// these functions" and "function f is called only from these functions". They
// are decided over the SSA of every function of the module (all three
// packages, closures included), not by the solver; each clause still becomes
// one named obligation so that it is counted, reported and replayed like the
// others.
//
//	//@ writers[C07] server.GCAServer.gcaPubkey: (*GCAServer).saveGCAKey (*GCAServer).loadGCAPubkey
//	//@ callers[C07] server.(*GCAServer).saveGCAKey: (*GCAServer).registerGCA
//
// A write is any use of the field's address other than a load (a store, a
// slice taken of an array field, the address passed to a call or stored
// somewhere), and any whole-struct store to a value of the owner type. This
// over-approximates: code that only reads through a taken address would be
// reported and has to be listed.

import (
	"fmt"
	"go/ast"
	"go/token"
	"go/types"
	"sort"
	"strconv"
	"strings"

	"golang.org/x/tools/go/ssa"
)

type FrameClause struct {
	Kind    string // writers | callers
	Target  string // server.GCAServer.gcaPubkey | server.(*GCAServer).saveGCAKey
	Allowed []string
	Props   []string
	Pkg     string
	Text    string
}

func parseFrameClause(kind, pkg string, props []string, rest string) (*FrameClause, error) {
	if kind == "globalinit" {
		j := strings.Index(rest, "=")
		if j < 0 {
			return nil, fmt.Errorf("bad globalinit clause %q", rest)
		}
		fc := &FrameClause{Kind: kind, Target: strings.TrimSpace(rest[:j]), Props: props, Pkg: pkg, Text: kind + " " + rest}
		for _, f := range strings.Fields(rest[j+1:]) {
			sv, err := strconv.Unquote(f)
			if err != nil {
				return nil, fmt.Errorf("globalinit: %q is not a string literal", f)
			}
			fc.Allowed = append(fc.Allowed, sv)
		}
		return fc, nil
	}
	if kind == "dominated" || kind == "sequence" {
		j := strings.Index(rest, ":")
		if j < 0 {
			return nil, fmt.Errorf("bad dominated clause %q", rest)
		}
		fc := &FrameClause{Kind: kind, Target: strings.TrimSpace(rest[:j]), Props: props, Pkg: pkg, Text: kind + " " + rest}
		fc.Allowed = strings.Fields(rest[j+1:])
		return fc, nil
	}
	i := strings.Index(rest, ":")
	if i < 0 {
		return nil, fmt.Errorf("bad %s clause %q (want TARGET: FUNC...)", kind, rest)
	}
	fc := &FrameClause{Kind: kind, Target: strings.TrimSpace(rest[:i]), Props: props, Pkg: pkg, Text: kind + " " + rest}
	for _, f := range strings.Fields(rest[i+1:]) {
		if !strings.Contains(f, ".") || strings.HasPrefix(f, "(") {
			f = pkg + "." + f
		}
		fc.Allowed = append(fc.Allowed, f)
	}
	return fc, nil
}

func isLoadOnly(v ssa.Value, seen map[ssa.Value]bool) bool {
	if seen[v] {
		return true
	}
	seen[v] = true
	refs := v.Referrers()
	if refs == nil {
		return true
	}
	for _, r := range *refs {
		switch u := r.(type) {
		case *ssa.DebugRef:
		case *ssa.UnOp:
			// *addr : a load
		case *ssa.IndexAddr:
			// &field[i]: reading or writing an element
			if u.X != v || !isLoadOnly(u, seen) {
				return false
			}
		case *ssa.FieldAddr:
			if u.X != v || !isLoadOnly(u, seen) {
				return false
			}
		default:
			return false
		}
	}
	return true
}

func ownerTypeName(t types.Type) string {
	if p, ok := t.Underlying().(*types.Pointer); ok {
		t = p.Elem()
	}
	return ownerName(t)
}

// fieldWriters returns the functions that may write field `field` of the
// struct type named owner ("server.GCAServer").
func fieldWriters(ld *Loader, owner, field string) []string {
	out := map[string]bool{}
	for name, fn := range ld.funcs {
		for _, b := range fn.Blocks {
			for _, in := range b.Instrs {
				switch x := in.(type) {
				case *ssa.FieldAddr:
					st, ok := x.X.Type().Underlying().(*types.Pointer)
					if !ok {
						continue
					}
					if ownerName(st.Elem()) != owner {
						continue
					}
					sst, ok := st.Elem().Underlying().(*types.Struct)
					if !ok || sst.Field(x.Field).Name() != field {
						continue
					}
					if !isLoadOnly(x, map[ssa.Value]bool{}) {
						out[name] = true
					}
				case *ssa.Store:
					if ownerName(x.Val.Type()) == owner {
						// whole-struct assignment: unless it initialises a fresh local
						// composite literal (Alloc in the same function that is only
						// then published), it overwrites every field
						if a, ok := x.Addr.(*ssa.Alloc); ok && a.Parent() == fn {
							continue
						}
						out[name] = true
					}
				}
			}
		}
	}
	var r []string
	for k := range out {
		r = append(r, k)
	}
	sort.Strings(r)
	return r
}

// callersOf returns the functions that call or take the value of target.
func callersOf(ld *Loader, target string, pkg string) ([]string, bool) {
	tf := ld.funcs[target]
	if tf == nil {
		// a function outside the module (os.WriteFile, os.Create, ...): call
		// sites are matched by the callee's qualified name; the clause is
		// meaningful even when nobody calls it (then the allowed set may be empty)
		i := strings.LastIndex(target, ".")
		if i < 0 || strings.Contains(target, "(") {
			return nil, false
		}
		for _, p := range ld.prog.AllPackages() {
			if strings.HasPrefix(p.Pkg.Path(), modulePath) && p.Pkg.Name() == target[:i] {
				return nil, false // a module function that does not exist (any more)
			}
		}
		known := false
		for _, p := range ld.prog.AllPackages() {
			if p.Pkg.Path() == target[:i] && p.Func(target[i+1:]) != nil {
				known = true
			}
		}
		if !known {
			return nil, false
		}
		out := map[string]bool{}
		for name, fn := range ld.funcs {
			// a clause about a library function speaks for the package whose
			// contract file states it
			if !strings.HasPrefix(name, pkg+".") {
				continue
			}
			for _, b := range fn.Blocks {
				for _, in := range b.Instrs {
					for _, op := range in.Operands(nil) {
						if op == nil || *op == nil {
							continue
						}
						if f, ok := (*op).(*ssa.Function); ok && f.Pkg != nil && f.Pkg.Pkg.Path()+"."+f.Name() == target {
							out[name] = true
						}
					}
				}
			}
		}
		var r []string
		for k := range out {
			r = append(r, k)
		}
		sort.Strings(r)
		return r, true
	}
	out := map[string]bool{}
	for name, fn := range ld.funcs {
		for _, b := range fn.Blocks {
			for _, in := range b.Instrs {
				if ci, ok := in.(ssa.CallInstruction); ok {
					if ci.Common().StaticCallee() == tf {
						out[name] = true
					}
				}
				// the function used as a value (method value, closure binding, argument)
				for _, op := range in.Operands(nil) {
					if op == nil || *op == nil {
						continue
					}
					if f, ok := (*op).(*ssa.Function); ok && f == tf {
						if ci, isCall := in.(ssa.CallInstruction); isCall && ci.Common().Value == f {
							continue
						}
						out[name] = true
					}
				}
			}
		}
	}
	var r []string
	for k := range out {
		r = append(r, k)
	}
	sort.Strings(r)
	return r, true
}

// frameObligation decides one clause and wraps the verdict as an obligation.
func frameObligation(ld *Loader, fc *FrameClause) *Obl {
	switch fc.Kind {
	case "globalinit":
		return globalInitObligation(ld, fc)
	case "dominated":
		return dominatedObligation(ld, fc)
	case "sequence":
		return sequenceObligation(ld, fc)
	}
	vc := newVC("frame:" + fc.Target)
	var found []string
	ok := true
	detail := ""
	switch fc.Kind {
	case "writers":
		i := strings.LastIndex(fc.Target, ".")
		if i < 0 {
			ok, detail = false, "bad target"
			break
		}
		owner, field := fc.Target[:i], fc.Target[i+1:]
		// the field must exist (a renamed field must not make the clause vacuous)
		exists := false
		for _, p := range ld.prog.AllPackages() {
			if p.Pkg.Name() != fc.Pkg {
				continue
			}
			if tn, isT := p.Pkg.Scope().Lookup(owner[strings.Index(owner, ".")+1:]).(*types.TypeName); isT {
				if st, isS := tn.Type().Underlying().(*types.Struct); isS && fieldIndex(st, field) >= 0 {
					exists = true
				}
			}
		}
		if !exists {
			ok, detail = false, "no such field (contract out of date)"
			break
		}
		found = fieldWriters(ld, owner, field)
	case "callers":
		var have bool
		found, have = callersOf(ld, fc.Target, fc.Pkg)
		if !have {
			ok, detail = false, "no such function (contract out of date)"
		}
	}
	allowed := map[string]bool{}
	for _, a := range fc.Allowed {
		allowed[a] = true
	}
	var extra []string
	for _, f := range found {
		if !allowed[f] {
			extra = append(extra, f)
			ok = false
		}
	}
	goal := "true"
	if !ok {
		goal = "false"
	}
	o := &Obl{Name: fmt.Sprintf("%s/frame(%s) «%s: %s»#1", fc.Pkg, fc.Kind, fc.Target, strings.Join(fc.Allowed, " ")), Kind: "frame-" + fc.Kind, Func: fc.Pkg + ".frame:" + fc.Target,
		Guard: "true", Goal: goal, Prefix: 0, vc: vc, Src: fc.Text, Props: fc.Props}
	if !ok {
		o.Model = fmt.Sprintf("not in the allowed set: %s %s (found: %s)", strings.Join(extra, " "), detail, strings.Join(found, " "))
		o.FrameDetail = o.Model
	}
	vc.obls = append(vc.obls, o)
	return o
}

// globalinit[Cxx] pkg.Var = "a" "b" ...   the package-level string-slice variable
// is initialised with exactly these literals (read from the typed AST of the
// declaration) and no function of the module writes the variable, takes its
// address, or stores into / re-slices / hands out the slice it holds.
//
// dominated[Cxx] FUNC: GUARD => TARGET...   in FUNC every call of a TARGET is
// dominated by the true branch of a conditional on the result of a call of
// GUARD (e.g. the archive work runs only after RateLimiter.Allow() said yes).

func globalInitObligation(ld *Loader, fc *FrameClause) *Obl {
	vc := newVC("frame:" + fc.Target)
	ok, detail := true, ""
	i := strings.LastIndex(fc.Target, ".")
	pkgName, varName := fc.Target[:i], fc.Target[i+1:]
	var lits []string
	found := false
	for _, f := range ld.files {
		if f.Name.Name != pkgName {
			continue
		}
		for _, d := range f.Decls {
			gd, isGen := d.(*ast.GenDecl)
			if !isGen || gd.Tok != token.VAR {
				continue
			}
			for _, sp := range gd.Specs {
				vs := sp.(*ast.ValueSpec)
				for k, n := range vs.Names {
					if n.Name != varName || k >= len(vs.Values) {
						continue
					}
					found = true
					cl, isLit := vs.Values[k].(*ast.CompositeLit)
					if !isLit {
						ok, detail = false, "initialiser is not a composite literal"
						continue
					}
					for _, e := range cl.Elts {
						bl, isB := e.(*ast.BasicLit)
						if !isB || bl.Kind != token.STRING {
							ok, detail = false, "initialiser element is not a string literal"
							continue
						}
						sv, _ := strconv.Unquote(bl.Value)
						lits = append(lits, sv)
					}
				}
			}
		}
	}
	if !found {
		ok, detail = false, "no such variable (contract out of date)"
	}
	if ok && strings.Join(lits, "\x00") != strings.Join(fc.Allowed, "\x00") {
		ok, detail = false, fmt.Sprintf("initialiser is %q", lits)
	}
	// writers of the global
	var writers []string
	for name, fn := range ld.funcs {
		if fn.Synthetic != "" || fn.Name() == "init" {
			continue
		}
		for _, b := range fn.Blocks {
			for _, in := range b.Instrs {
				for _, op := range in.Operands(nil) {
					g, isG := (*op).(*ssa.Global)
					if !isG || g.Name() != varName || g.Pkg.Pkg.Name() != pkgName {
						continue
					}
					// only plain loads of the variable whose value is then only
					// ranged over, measured or indexed for reading are allowed
					ld1, isLoad := in.(*ssa.UnOp)
					if !isLoad || !globalValueReadOnly(ld1) {
						writers = append(writers, name)
					}
				}
			}
		}
	}
	if len(writers) > 0 {
		sort.Strings(writers)
		ok = false
		detail += " written or aliased in: " + strings.Join(writers, " ")
	}
	goal := "true"
	if !ok {
		goal = "false"
	}
	o := &Obl{Name: fmt.Sprintf("%s/frame(globalinit) «%s = %s»#1", fc.Pkg, fc.Target, strings.Join(fc.Allowed, " ")), Kind: "frame-globalinit", Func: fc.Pkg + ".frame:" + fc.Target,
		Guard: "true", Goal: goal, Prefix: 0, vc: vc, Src: fc.Text, Props: fc.Props, FrameDetail: strings.TrimSpace(detail)}
	vc.obls = append(vc.obls, o)
	return o
}

func globalValueReadOnly(v ssa.Value) bool {
	refs := v.Referrers()
	if refs == nil {
		return true
	}
	for _, r := range *refs {
		switch u := r.(type) {
		case *ssa.DebugRef, *ssa.Range:
		case *ssa.Call:
			if b, ok := u.Call.Value.(*ssa.Builtin); !ok || (b.Name() != "len" && b.Name() != "cap") {
				return false
			}
		case *ssa.IndexAddr:
			if !isLoadOnly(u, map[ssa.Value]bool{}) {
				return false
			}
		case *ssa.Index:
		default:
			return false
		}
	}
	return true
}

// sequence[Cxx] FUNC: A B C ...   in FUNC each of the named callees is called,
// and every call of a later one is dominated by a completed call of the one
// before it (the earlier call is in a dominating block, or earlier in the same
// block): on every path the calls happen in this order. Used for the start-up
// loaders, whose contracts read state that the previous loader establishes.
func sequenceObligation(ld *Loader, fc *FrameClause) *Obl {
	vc := newVC("frame:" + fc.Target)
	ok, detail := true, ""
	fn := ld.funcs[fc.Target]
	type site struct {
		b   *ssa.BasicBlock
		idx int
	}
	if fn == nil {
		ok, detail = false, "no such function (contract out of date)"
	} else if len(fc.Allowed) < 2 {
		ok, detail = false, "sequence needs at least two callees"
	} else {
		sites := map[string][]site{}
		for _, b := range fn.Blocks {
			for k, in := range b.Instrs {
				call, isCall := in.(ssa.CallInstruction)
				if !isCall {
					continue
				}
				lbl := calleeLabel(call.Common())
				for _, t := range fc.Allowed {
					if strings.HasSuffix(lbl, "."+t) || strings.HasSuffix(lbl, ")."+t) || lbl == t {
						sites[t] = append(sites[t], site{b, k})
					}
				}
			}
		}
		for _, t := range fc.Allowed {
			if len(sites[t]) == 0 {
				ok = false
				detail += " no call of " + t + " (contract out of date);"
			}
		}
		for i := 1; i < len(fc.Allowed) && ok; i++ {
			prev, cur := fc.Allowed[i-1], fc.Allowed[i]
			for _, c := range sites[cur] {
				dom := false
				for _, p := range sites[prev] {
					if (p.b == c.b && p.idx < c.idx) || (p.b != c.b && p.b.Dominates(c.b)) {
						dom = true
					}
				}
				if !dom {
					ok = false
					detail += " call of " + cur + " is not preceded on every path by a call of " + prev + ";"
				}
			}
		}
	}
	goal := "true"
	if !ok {
		goal = "false"
	}
	o := &Obl{Name: fmt.Sprintf("%s/frame(sequence) «%s: %s»#1", fc.Pkg, fc.Target, strings.Join(fc.Allowed, " ")), Kind: "frame-sequence", Func: fc.Pkg + ".frame:" + fc.Target,
		Guard: "true", Goal: goal, Prefix: 0, vc: vc, Src: fc.Text, Props: fc.Props, FrameDetail: strings.TrimSpace(detail)}
	vc.obls = append(vc.obls, o)
	return o
}

func dominatedObligation(ld *Loader, fc *FrameClause) *Obl {
	vc := newVC("frame:" + fc.Target)
	ok, detail := true, ""
	fn := ld.funcs[fc.Target]
	guard := ""
	var targets []string
	for i, a := range fc.Allowed {
		if a == "=>" {
			targets = fc.Allowed[i+1:]
			break
		}
		guard = a
	}
	if fn == nil {
		ok, detail = false, "no such function (contract out of date)"
	} else {
		// blocks reached only through the true branch of `if GUARD()` / the false branch of `if !GUARD()`
		var okBlocks []*ssa.BasicBlock
		for _, b := range fn.Blocks {
			for _, in := range b.Instrs {
				call, isCall := in.(*ssa.Call)
				if !isCall || !strings.HasSuffix(calleeLabel(call.Common()), guard) {
					continue
				}
				for _, r := range *call.Referrers() {
					var cond ssa.Value = call
					neg := false
					if u, isU := r.(*ssa.UnOp); isU && u.Op == token.NOT {
						cond, neg = u, true
					} else if _, isIf := r.(*ssa.If); !isIf {
						continue
					}
					for _, rr := range *cond.Referrers() {
						if iff, isIf := rr.(*ssa.If); isIf {
							succ := iff.Block().Succs[0]
							if neg {
								succ = iff.Block().Succs[1]
							}
							okBlocks = append(okBlocks, succ)
						}
					}
				}
			}
		}
		if len(okBlocks) == 0 {
			ok, detail = false, "no conditional on a call of "+guard
		}
		seen := 0
		for _, b := range fn.Blocks {
			for _, in := range b.Instrs {
				call, isCall := in.(ssa.CallInstruction)
				if !isCall {
					continue
				}
				lbl := calleeLabel(call.Common())
				for _, t := range targets {
					if !strings.HasSuffix(lbl, t) {
						continue
					}
					seen++
					dom := false
					for _, g := range okBlocks {
						if g.Dominates(b) {
							dom = true
						}
					}
					if !dom {
						ok = false
						detail += " call of " + t + " not dominated by an admitted " + guard + ";"
					}
				}
			}
		}
		if seen == 0 {
			ok, detail = false, "none of the target calls occurs (contract out of date)"
		}
	}
	goal := "true"
	if !ok {
		goal = "false"
	}
	o := &Obl{Name: fmt.Sprintf("%s/frame(dominated) «%s: %s»#1", fc.Pkg, fc.Target, strings.Join(fc.Allowed, " ")), Kind: "frame-dominated", Func: fc.Pkg + ".frame:" + fc.Target,
		Guard: "true", Goal: goal, Prefix: 0, vc: vc, Src: fc.Text, Props: fc.Props, FrameDetail: strings.TrimSpace(detail)}
	vc.obls = append(vc.obls, o)
	return o
}
