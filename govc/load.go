package main

import (
	"fmt"
	"go/ast"
	"go/token"
	"os"
	"strings"

	"golang.org/x/tools/go/ast/astutil"
	"golang.org/x/tools/go/packages"
	"golang.org/x/tools/go/ssa"
	"golang.org/x/tools/go/ssa/ssautil"
)

type Loader struct {
	fset  *token.FileSet
	pkgs  []*packages.Package
	prog  *ssa.Program
	spkgs []*ssa.Package
	files map[string]*ast.File // filename -> AST (module files only)
	writtenGlobals map[*ssa.Global]bool
	tags  string
	funcs map[string]*ssa.Function // funcName -> function (module packages)
}

func Load(repo string, tags string, patterns ...string) (*Loader, error) {
	cfg := &packages.Config{Mode: packages.LoadAllSyntax, Dir: repo, BuildFlags: []string{"-tags=" + tags},
		Env: append(os.Environ(), "GOFLAGS=-mod=mod", "GOPROXY=off", "GOSUMDB=off", "GOTOOLCHAIN=local")}
	pkgs, err := packages.Load(cfg, patterns...)
	if err != nil {
		return nil, err
	}
	var errs []string
	for _, p := range pkgs {
		for _, e := range p.Errors {
			errs = append(errs, e.Error())
		}
	}
	if len(errs) > 0 {
		return nil, fmt.Errorf("package errors:\n%s", strings.Join(errs, "\n"))
	}
	prog, spkgs := ssautil.AllPackages(pkgs, ssa.InstantiateGenerics|ssa.NaiveForm|ssa.BuildSerially)
	prog.Build()
	ld := &Loader{fset: prog.Fset, pkgs: pkgs, prog: prog, spkgs: spkgs, files: map[string]*ast.File{}, tags: tags, funcs: map[string]*ssa.Function{}}
	for _, p := range pkgs {
		for _, f := range p.Syntax {
			ld.files[prog.Fset.Position(f.Pos()).Filename] = f
		}
	}
	for _, sp := range spkgs {
		if sp == nil {
			continue
		}
		for _, m := range sp.Members {
			switch x := m.(type) {
			case *ssa.Function:
				ld.addFunc(x)
			case *ssa.Type:
				ms := prog.MethodSets.MethodSet(x.Type())
				for i := 0; i < ms.Len(); i++ {
					if f := prog.MethodValue(ms.At(i)); f != nil {
						ld.addFunc(f)
					}
				}
				pms := prog.MethodSets.MethodSet(ptrTo(x.Type()))
				for i := 0; i < pms.Len(); i++ {
					if f := prog.MethodValue(pms.At(i)); f != nil {
						ld.addFunc(f)
					}
				}
			}
		}
	}
	return ld, nil
}

func (ld *Loader) addFunc(f *ssa.Function) {
	if f.Synthetic != "" && len(f.Blocks) == 0 {
		return
	}
	if f.Synthetic != "" && strings.HasPrefix(f.Synthetic, "wrapper") {
		return
	}
	n := funcName(f)
	if _, ok := ld.funcs[n]; !ok {
		ld.funcs[n] = f
	}
	for _, an := range f.AnonFuncs {
		ld.addFunc(an)
	}
}

// exprAt returns the source text of the innermost expression whose
// characteristic position is pos (index/slice bracket, selector dot, call
// paren, operator), normalised.
func (ld *Loader) exprAt(pos token.Pos) string {
	p := ld.fset.Position(pos)
	f := ld.files[p.Filename]
	if f == nil {
		// library code: name the file and function instead
		return ""
	}
	path, _ := astutil.PathEnclosingInterval(f, pos, pos)
	for _, n := range path {
		switch x := n.(type) {
		case *ast.IndexExpr:
			if x.Lbrack == pos || x.Pos() == pos {
				return nodeText(ld.fset, x)
			}
		case *ast.SliceExpr:
			if x.Lbrack == pos || x.Pos() == pos {
				return nodeText(ld.fset, x)
			}
		case *ast.SelectorExpr:
			if x.Sel.Pos() == pos || x.Pos() == pos {
				return nodeText(ld.fset, x)
			}
		case *ast.StarExpr:
			if x.Star == pos {
				return nodeText(ld.fset, x)
			}
		case *ast.BinaryExpr:
			if x.OpPos == pos {
				return nodeText(ld.fset, x)
			}
		case *ast.CallExpr:
			if x.Lparen == pos || x.Pos() == pos {
				return nodeText(ld.fset, x)
			}
		case *ast.UnaryExpr:
			if x.OpPos == pos {
				return nodeText(ld.fset, x)
			}
		case *ast.CompositeLit:
			if x.Lbrace == pos || x.Pos() == pos {
				return nodeText(ld.fset, x)
			}
		case *ast.Ident:
			if x.Pos() == pos {
				// prefer an enclosing selector / index if it starts here
				continue
			}
		}
	}
	for _, n := range path {
		if e, ok := n.(ast.Expr); ok {
			return nodeText(ld.fset, e)
		}
		if s, ok := n.(ast.Stmt); ok {
			return nodeText(ld.fset, s)
		}
	}
	return ""
}

// neverWritten: no function of the loaded module (package initialisers aside)
// uses the global other than by loading it.
func (ld *Loader) neverWritten(g *ssa.Global) bool {
	if ld.writtenGlobals == nil {
		ld.writtenGlobals = map[*ssa.Global]bool{}
		for _, fn := range ld.funcs {
			if fn.Name() == "init" || strings.HasPrefix(fn.Name(), "init#") {
				continue
			}
			for _, b := range fn.Blocks {
				for _, in := range b.Instrs {
					for _, op := range in.Operands(nil) {
						gg, ok := (*op).(*ssa.Global)
						if !ok {
							continue
						}
						if u, isLoad := in.(*ssa.UnOp); isLoad && u.X == gg {
							continue
						}
						ld.writtenGlobals[gg] = true
					}
				}
			}
		}
	}
	if g.Pkg == nil || !strings.HasPrefix(g.Pkg.Pkg.Path(), modulePath) {
		return false
	}
	return !ld.writtenGlobals[g]
}
