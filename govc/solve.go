package main

import (
	"bytes"
	"context"
	"fmt"
	"os"
	"os/exec"
	"path/filepath"
	"sort"
	"strings"
	"sync"
	"time"
)

type solverSpec struct {
	name string
	args func(timeoutS int, file string) []string
}

var solvers = []solverSpec{
	{"z3-new", func(t int, f string) []string { return []string{"z3-new", fmt.Sprintf("-T:%d", t), f} }},
	{"z3", func(t int, f string) []string { return []string{"/usr/bin/z3", fmt.Sprintf("-T:%d", t), f} }},
	{"cvc5", func(t int, f string) []string {
		return []string{"cvc5", fmt.Sprintf("--tlimit=%d", t*1000), "--enum-inst", "--produce-models", f}
	}},
	// z3 5.x translating bit-vector constraints to integer arithmetic: decides
	// index arithmetic over sums of offsets (slice re-slicing, append) in
	// seconds where bit-blasting runs out of time
	{"z3-new-int", func(t int, f string) []string {
		return []string{"z3-new", fmt.Sprintf("-T:%d", t), "smt.bv.solver=2", f}
	}},
	// cvc5 translating bit-vectors to integers: decides linear index arithmetic
	// with constant strides that bit-blasting cannot
	{"cvc5-int", func(t int, f string) []string {
		return []string{"cvc5", fmt.Sprintf("--tlimit=%d", t*1000), "--solve-bv-as-int=sum", "--enum-inst", "--produce-models", f}
	}},
}

type solveResult struct {
	status string // unsat sat unknown timeout error
	solver string
	out    string
	secs   float64
}

// qfOnly: solvers whose answers are only used on quantifier-free queries.
// z3's integer translation of bit-vectors (smt.bv.solver=2) answered "unsat"
// on a satisfiable query with quantified hypotheses over uninterpreted
// functions (both bit-blasting z3 versions found a model; cvc5 refuses the
// combination outright), so it never sees a quantifier.
var qfOnly = map[string]bool{"z3-new-int": true}

// zsaAxiom / zsaConst: the all-empty string array is a constant array for z3
// (its quantified definition makes z3 wander) and an axiomatised constant for
// cvc5 (which rejects constant arrays of an uninterpreted constant).
const zsaMarker = " ;ZSA"
const zsaConst = "(assert (= ZeroStrArr ((as const (Array (_ BitVec 64) Str)) Str_empty)))"

func solverVariant(sp solverSpec, file string) string {
	if !strings.HasPrefix(sp.name, "z3") {
		return file
	}
	data, err := os.ReadFile(file)
	if err != nil || !bytes.Contains(data, []byte(zsaMarker)) {
		return file
	}
	lines := strings.Split(string(data), "\n")
	for i, l := range lines {
		if strings.HasSuffix(l, zsaMarker) {
			lines[i] = zsaConst
		}
	}
	out := file + ".z3"
	if _, err := os.Stat(out); err != nil {
		tmp := fmt.Sprintf("%s.%s.tmp", out, sp.name)
		os.WriteFile(tmp, []byte(strings.Join(lines, "\n")), 0644)
		os.Rename(tmp, out)
	}
	return out
}

func runSolver(sp solverSpec, file string, timeoutS int) solveResult {
	file = solverVariant(sp, file)
	if qfOnly[sp.name] {
		if data, err := os.ReadFile(file); err != nil || bytes.Contains(data, []byte("(forall ")) || bytes.Contains(data, []byte("(exists ")) {
			return solveResult{"unknown", sp.name, "skipped: query has quantifiers", 0}
		}
	}
	ctx, cancel := context.WithTimeout(context.Background(), time.Duration(timeoutS+3)*time.Second)
	defer cancel()
	args := sp.args(timeoutS, file)
	cmd := exec.CommandContext(ctx, args[0], args[1:]...)
	var out bytes.Buffer
	cmd.Stdout = &out
	cmd.Stderr = &out
	t0 := time.Now()
	cmd.Run()
	secs := time.Since(t0).Seconds()
	text := out.String()
	first := ""
	for _, l := range strings.Split(text, "\n") {
		l = strings.TrimSpace(l)
		if l == "" || strings.HasPrefix(l, "WARNING") {
			continue
		}
		first = l
		break
	}
	st := "error"
	switch {
	case first == "unsat" || first == "sat" || first == "unknown":
		st = first
	case strings.Contains(first, "timeout") || ctx.Err() != nil || strings.Contains(text, "interrupted by timeout"):
		st = "timeout"
	}
	if st == "unknown" && secs >= float64(timeoutS)-0.5 {
		st = "timeout"
	}
	return solveResult{st, sp.name, text, secs}
}

// decide races the solvers on one query text.
func decide(dir string, id int, query string, timeoutS int, confirm bool) (solveResult, []solveResult) {
	return decideWith(solvers, dir, id, query, timeoutS, confirm)
}

func pickSolvers(names ...string) []solverSpec {
	var out []solverSpec
	for _, n := range names {
		for _, sp := range solvers {
			if sp.name == n {
				out = append(out, sp)
			}
		}
	}
	return out
}

func decideWith(solvers []solverSpec, dir string, id int, query string, timeoutS int, confirm bool) (solveResult, []solveResult) {
	file := filepath.Join(dir, fmt.Sprintf("q%d.smt2", id))
	os.WriteFile(file, []byte(query), 0644)
	var all []solveResult
	// z3-new gets a head start; the other two join if it has not answered
	ch := make(chan solveResult, len(solvers))
	go func() { ch <- runSolver(solvers[0], file, timeoutS) }()
	started := 1
	var best solveResult
	have := false
	timer := time.After(0)
	if confirm {
		timer = time.After(0)
	}
	got := 0
	for got < started {
		select {
		case x := <-ch:
			got++
			all = append(all, x)
			definitive := x.status == "unsat" || x.status == "sat"
			if !have || (definitive && !(best.status == "unsat" || best.status == "sat")) || (best.status == "error" && x.status != "error") {
				best, have = x, true
			}
			if definitive && !confirm {
				// remaining solvers finish in the background (bounded by their own timeout)
				rest := started - got
				go func() {
					for i := 0; i < rest; i++ {
						<-ch
					}
				}()
				return best, all
			}
			if started == 1 {
				// first solver gave up early: start the others now
				for _, sp := range solvers[1:] {
					go func(sp solverSpec) { ch <- runSolver(sp, file, timeoutS) }(sp)
				}
				started = len(solvers)
			}
		case <-timer:
			if started == 1 {
				for _, sp := range solvers[1:] {
					go func(sp solverSpec) { ch <- runSolver(sp, file, timeoutS) }(sp)
				}
				started = len(solvers)
			}
		}
	}
	return best, all
}

// Discharge decides all obligations. Pass 1: every obligation on z3-new alone
// with a short timeout, one process per core (most obligations are decided
// here). Pass 2: the undecided ones with all solvers racing, few at a time so
// that the machine is not oversubscribed (a loaded machine turns proofs that
// need ten seconds into timeouts).
// Discharge decides all obligations. With confirm (thorough tier) the same
// pipeline runs with the longer timeout and every discharged obligation is then
// given to a second, different solver on the rendering that proved it (30 s);
// a contradicting answer is a disagreement, a missing one is recorded as
// unconfirmed (never as a failure).
func Discharge(obls []*Obl, timeoutS int, confirm bool, workers int) (disagreements int) {
	if confirm {
		dischargeOnce(obls, timeoutS, workers)
		return confirmPhase(obls, workers)
	}
	return dischargeOnce(obls, timeoutS, workers)
}

func confirmPhase(obls []*Obl, workers int) (disagreements int) {
	dir, err := os.MkdirTemp("", "govc-c")
	if err != nil {
		panic(err)
	}
	defer os.RemoveAll(dir)
	var mu sync.Mutex
	var wg sync.WaitGroup
	sem := make(chan struct{}, workers/2+1)
	for i, o := range obls {
		if o.Result != "unsat" || o.provedQuery == "" {
			continue
		}
		wg.Add(1)
		go func(i int, o *Obl) {
			defer wg.Done()
			sem <- struct{}{}
			defer func() { <-sem }()
			winner := o.Solver
			if j := strings.Index(winner, "("); j >= 0 {
				winner = winner[:j]
			}
			file := filepath.Join(dir, fmt.Sprintf("c%d.smt2", i))
			os.WriteFile(file, []byte(o.provedQuery), 0644)
			n := 1
			for _, sp := range solvers {
				if sp.name == winner || (strings.HasPrefix(sp.name, "z3-new") && strings.HasPrefix(winner, "z3-new")) {
					continue
				}
				r := runSolver(sp, file, 30)
				if r.status == "unsat" {
					n++
					break
				}
				if r.status == "sat" {
					mu.Lock()
					disagreements++
					mu.Unlock()
					o.Tags = map[string]string{"disagreement": sp.name + " answers sat on the rendering " + o.Solver + " proved"}
					break
				}
			}
			if o.Tags == nil {
				o.Tags = map[string]string{}
			}
			o.Tags["unsat_confirmations"] = fmt.Sprint(n)
			o.provedQuery = ""
		}(i, o)
	}
	wg.Wait()
	return disagreements
}

func dischargeOnce(obls []*Obl, timeoutS int, workers int) (disagreements int) {
	confirm := false
	keepQuery := true
	_ = keepQuery
	dir, err := os.MkdirTemp("", "govc-q")
	if err != nil {
		panic(err)
	}
	defer os.RemoveAll(dir)
	var mu sync.Mutex
	runPool := func(idxs []int, n int, f func(i int)) {
		var wg sync.WaitGroup
		jobs := make(chan int)
		for w := 0; w < n; w++ {
			wg.Add(1)
			go func() {
				defer wg.Done()
				for i := range jobs {
					f(i)
				}
			}()
		}
		for _, i := range idxs {
			jobs <- i
		}
		close(jobs)
		wg.Wait()
	}
	all := make([]int, len(obls))
	for i := range obls {
		all[i] = i
	}
	var pending []int
	if !confirm {
		quick := 6
		runPool(all, workers, func(i int) {
			o := obls[i]
			file := filepath.Join(dir, fmt.Sprintf("p%d.smt2", i))
			os.WriteFile(file, []byte(o.Query(true)), 0644)
			r := runSolver(solvers[0], file, quick)
			os.Remove(file)
			if r.status == "unsat" || r.status == "sat" {
				o.Result, o.Solver, o.TimeS = r.status, r.solver, r.secs
				if r.status == "sat" {
					o.Model = r.out
				}
				return
			}
			mu.Lock()
			pending = append(pending, i)
			mu.Unlock()
		})
		sort.Ints(pending)
	} else {
		pending = all
	}
	slow := workers / 3
	if slow < 2 {
		slow = 2
	}
	// the thorough tier (120 s) gives every attempt three times the quick budget
	scale := 1
	if timeoutS >= 100 {
		scale = 3
	}
	runPool(pending, slow, func(i int) {
		o := obls[i]
		tmo := timeoutS
		if o.TimeoutS > 0 {
			tmo = o.TimeoutS
		}
		if !confirm && os.Getenv("GOVC_NOLEAN") == "" {
			// first the lean rendering: only assumptions about the goal's own
			// definitional cone (sound: hypotheses are only dropped)
			o4 := *o
			o4.Lean = true
			g, _ := decideWith(pickSolvers("z3-new", "cvc5"), dir, i+4000000, o4.Query(false), 12*scale, false)
			if g.status == "unsat" {
				o.Result, o.Solver, o.TimeS = "unsat", g.solver+"(lean)", g.secs
				o.provedQuery = o4.Query(false)
				return
			}
		}
		hasQ := strings.Contains(o.Query(false), "(forall ")
		if hasQ && !confirm {
			// proof attempt from the ground facts alone (explicit instances of the
			// quantified hypotheses are among them): dropping hypotheses is sound
			// for proving, and quantifier-free queries are decided quickly
			o2 := *o
			o2.DropQuantified = true
			g, _ := decideWith(pickSolvers("z3-new", "z3-new-int", "cvc5"), dir, i+2000000, o2.Query(false), 40*scale, false)
			if g.status == "unsat" {
				o.Result, o.Solver, o.TimeS = "unsat", g.solver+"(ground)", g.secs
				o.provedQuery = o2.Query(false)
				return
			}
		}
		if hasQ && !confirm && strings.Contains(o.Query(false), ";LAMBDA ") {
			// arrays defined pointwise (copies, appends of symbolic length): as
			// lambda terms for z3, focused on the relevant quantified hypotheses
			o5 := *o
			o5.Lambda, o5.Focus = true, true
			g, _ := decideWith(pickSolvers("z3-new", "z3"), dir, i+5000000, o5.Query(false), 20*scale, false)
			if g.status == "unsat" {
				o.Result, o.Solver, o.TimeS = "unsat", g.solver+"(lambda)", g.secs
				o.provedQuery = o5.Query(false)
				return
			}
		}
		if hasQ && !confirm {
			// second attempt: only the quantified hypotheses whose triggers talk
			// about memory the goal depends on (irrelevant invariants, e.g. of
			// another mutex, make the solvers wander)
			o3 := *o
			o3.Focus = true
			g, _ := decideWith(pickSolvers("z3-new", "cvc5", "z3"), dir, i+3000000, o3.Query(false), 30*scale, false)
			if g.status == "unsat" {
				o.Result, o.Solver, o.TimeS = "unsat", g.solver+"(focused)", g.secs
				o.provedQuery = o3.Query(false)
				return
			}
		}
		best, allr := decide(dir, i, o.Query(true), tmo, confirm)
		o.Result, o.Solver, o.TimeS = best.status, best.solver, best.secs
		if best.status == "unsat" {
			o.provedQuery = o.Query(true)
		}
		if best.status != "unsat" && best.status != "sat" && hasQ {
			// undecided with quantified hypotheses: look for a candidate
			// counterexample without them (believed only after replay)
			o2 := *o
			o2.DropQuantified = true
			cand, _ := decide(dir, i+1000000, o2.Query(true), 10, false)
			if cand.status == "sat" {
				o.Result = "sat-candidate"
				o.Solver = cand.solver
				o.Model = "candidate model found with quantified hypotheses dropped (undecided with them: " + best.status + ")\n" + cand.out
				return
			}
		}
		if best.status == "sat" {
			o.Model = best.out
		} else if best.status != "unsat" {
			var b strings.Builder
			for _, r := range allr {
				fmt.Fprintf(&b, "[%s: %s %.1fs] %s\n", r.solver, r.status, r.secs, firstLines(r.out, 3))
			}
			o.Model = b.String()
		}
		if confirm {
			seen := map[string]bool{}
			for _, r := range allr {
				if r.status == "sat" || r.status == "unsat" {
					seen[r.status] = true
				}
			}
			if len(seen) > 1 {
				mu.Lock()
				disagreements++
				mu.Unlock()
			}
			n := 0
			for _, r := range allr {
				if r.status == "unsat" {
					n++
				}
			}
			o.Tags = map[string]string{"unsat_confirmations": fmt.Sprint(n)}
		}
	})
	return disagreements
}

func firstLines(s string, n int) string {
	ls := strings.Split(strings.TrimSpace(s), "\n")
	if len(ls) > n {
		ls = ls[:n]
	}
	return strings.Join(ls, " | ")
}

// CheckSat runs a plain satisfiability query (vacuity guards).
func CheckSat(query string, timeoutS int) string {
	dir, _ := os.MkdirTemp("", "govc-s")
	defer os.RemoveAll(dir)
	r, _ := decide(dir, 0, query, timeoutS, false)
	return r.status
}
