package main

// Symbolic executor over go/ssa (NaiveForm). One forward pass over the CFG in
// gated form; loops are cut at their headers.

import (
	"bytes"
	"fmt"
	"go/ast"
	"go/constant"
	"go/printer"
	"go/token"
	"go/types"
	"math"
	"math/big"
	"sort"
	"strings"

	"golang.org/x/tools/go/ssa"
)

type bigInt = big.Int

const modulePath = "github.com/glowlabs-org/gca-backend"

type Frame struct {
	fn      *ssa.Function
	regs    map[ssa.Value]Val
	depth   int
	chain   string // call chain for obligation names ("" for the verified function)
	ct      *FuncContract
	entry   *State // pre-state (for old())
	params  []Val
	exits   []exitRec
	callPos token.Pos
	parent  *Frame
}

type pinnedGlobal struct {
	v    Val
	t    types.Type
	lits []string
}

type exitRec struct {
	st      *State
	results []Val
}

type Exec struct {
	ld            *Loader
	vc            *VC
	db            *ContractDB
	top           *ssa.Function
	comps         map[string]compInfo
	epochs        int
	localRefs     []string
	escaped       map[string]bool
	oblCount      map[string]int
	props         []string // properties obligations of this function are charged to
	abstracted    map[string]bool
	unsupported   []string
	maxInline     int
	curFrame      *Frame
	noSafety      bool
	fpUF          bool
	pinnedGlobals []pinnedGlobal
	exitFallback  *State // merged exit state: source of locals not yet declared at an early return
	specBits      bool // contract equality on floats is identity of the value (NaN equals NaN)
	epochInfo     map[int]epochInfo
	ifacePayload  map[string]ifaceRec
	heldAtEntry   map[string]bool
	curBlock      *ssa.BasicBlock
	lockChecks    bool
	entryLocks    map[string]string
	assigns       []assignPat
	assignsOn     bool
	assignsAll    bool
	usedContracts map[string]bool
	instSeq       int // explicit-instance groups (one per skolemised goal)
	pendingInst   int // group of the instances emitted for the next obligation
	topFrame      *Frame
	revealed      map[string]bool
	usedLemmas    map[string]bool
	lockSnap      *State // state right after the latest Lock() (havoc + invariant)
	curRange      *ssa.Range
	// specEq: == on aggregates in contracts is identity (a NaN field equals
	// itself); goeq() gives Go's IEEE semantics.
	specEq bool
	// invLoopBlocks: while a loop invariant is evaluated, locals declared
	// inside that loop are not in scope (so a name means the same variable at
	// loop entry and at the back edge)
	invLoopBlocks map[*ssa.BasicBlock]bool
	sumCache      map[string]*GhostSum
	loopHdr       map[*loopInfo]*State // state at each loop header right after the invariants were assumed
	hyps          []hypRecord          // quantified facts assumed so far (for explicit instantiation)
}

type unsupportedErr struct{ msg string }

func (ex *Exec) unsupportedf(format string, a ...interface{}) {
	panic(unsupportedErr{fmt.Sprintf(format, a...)})
}

func newExec(ld *Loader, db *ContractDB, fn *ssa.Function) *Exec {
	return &Exec{ld: ld, db: db, top: fn, vc: newVC(funcName(fn)), comps: map[string]compInfo{},
		escaped: map[string]bool{}, oblCount: map[string]int{}, abstracted: map[string]bool{}, maxInline: 4,
		epochInfo: map[int]epochInfo{}, ifacePayload: map[string]ifaceRec{}, heldAtEntry: map[string]bool{}, usedContracts: map[string]bool{}, revealed: map[string]bool{}, usedLemmas: map[string]bool{}, sumCache: map[string]*GhostSum{}}
}

// funcName gives the stable short name used in contracts and obligation
// names: pkg.Func, pkg.(*T).Method or pkg.T.Method.
func funcName(fn *ssa.Function) string {
	if fn == nil {
		return "?"
	}
	pkg := ""
	if fn.Pkg != nil {
		pkg = fn.Pkg.Pkg.Name()
	} else if fn.Object() != nil && fn.Object().Pkg() != nil {
		pkg = fn.Object().Pkg().Name()
	}
	if fn.Parent() != nil {
		return funcName(fn.Parent()) + "$" + strings.TrimPrefix(fn.Name(), fn.Parent().Name()+"$")
	}
	if recv := fn.Signature.Recv(); recv != nil {
		t := recv.Type()
		star := ""
		if p, ok := t.(*types.Pointer); ok {
			t = p.Elem()
			star = "*"
		}
		tn := t.String()
		if n, ok := t.(*types.Named); ok {
			tn = n.Obj().Name()
		}
		if star != "" {
			return fmt.Sprintf("%s.(*%s).%s", pkg, tn, fn.Name())
		}
		return fmt.Sprintf("%s.%s.%s", pkg, tn, fn.Name())
	}
	return pkg + "." + fn.Name()
}

func fullName(fn *ssa.Function) string {
	return fn.String()
}

func inModule(fn *ssa.Function) bool {
	p := fn.Pkg
	if p == nil && fn.Parent() != nil {
		p = fn.Parent().Pkg
	}
	return p != nil && strings.HasPrefix(p.Pkg.Path(), modulePath)
}

// ---------------------------------------------------------------------------
// obligations

func (ex *Exec) srcText(pos token.Pos) string {
	if !pos.IsValid() {
		return ""
	}
	return ex.ld.exprAt(pos)
}

func (ex *Exec) oblige(st *State, fr *Frame, kind string, pos token.Pos, src string, goal string) *Obl {
	if goal == "true" || st.guard == "false" {
		return nil
	}
	if ex.noSafety && isSafetyKind(kind) {
		return nil
	}
	if src == "" {
		src = ex.srcText(pos)
		for f := fr; src == "" && f != nil; f = f.parent {
			src = ex.srcText(f.callPos)
		}
	}
	base := fmt.Sprintf("%s/%s «%s»", ex.vc.Func, kind, src)
	if fr != nil && fr.chain != "" {
		base = fmt.Sprintf("%s/%s via %s «%s»", ex.vc.Func, kind, fr.chain, src)
	}
	ex.oblCount[base]++
	name := fmt.Sprintf("%s#%d", base, ex.oblCount[base])
	o := &Obl{Name: name, Kind: kind, Func: ex.vc.Func, Guard: st.guard, Goal: goal, Prefix: len(ex.vc.cmds), vc: ex.vc, Src: src, Props: ex.props}
	o.InstTag, ex.pendingInst = ex.pendingInst, 0
	o.lockSnap = st.lockSnap
	if pos.IsValid() {
		o.Pos = ex.ld.fset.Position(pos)
	}
	o.Inputs = ex.vc.inputs
	ex.vc.obls = append(ex.vc.obls, o)
	// after a runtime check the fact may be assumed on this path (the program
	// would have panicked otherwise); contract-level facts (invariants, pre and
	// post-conditions) are assumed too: they are proved here. Discipline checks
	// (guarded, lock-*, assigns) do not stop the real program and are not assumed.
	switch {
	case strings.HasPrefix(kind, "guarded"), kind == "blocking", strings.HasPrefix(kind, "lock-nostack"), strings.HasPrefix(kind, "lock-balance"), kind == "assigns", kind == "noblock-under-lock":
	case kind == "post", strings.HasPrefix(kind, "backedge("):
		// End-of-path clauses are each proved on their own: a property check
		// discharges only the clauses charged to that property, so a clause
		// charged to another one must not be available as a hypothesis here
		// (a change that falsifies the first of two equal clauses would
		// otherwise be reported under the first clause's property only).
	default:
		ex.vc.Assume(implies(st.guard, goal))
	}
	return o
}

func isSafetyKind(k string) bool {
	switch k {
	case "nil", "index", "slice", "div", "mapnil", "panic", "makeslice", "shift", "assert-type":
		return true
	}
	return false
}

func (ex *Exec) assume(st *State, fact string) {
	ex.vc.Assume(implies(st.guard, fact))
}

// ---------------------------------------------------------------------------
// fresh values

func (ex *Exec) freshVal(t types.Type, hint string) Val {
	v := mkVal(t, hint, nil, func(path string, s Sort) string { return ex.vc.Fresh(path, s) })
	ex.typeInv(nil, v, t)
	return v
}

// typeInv assumes facts that hold for every value of the type: slice header
// sanity, string length non-negative.
func (ex *Exec) typeInv(st *State, v Val, t types.Type) {
	as := func(f string) {
		if st != nil {
			ex.assume(st, f)
		} else {
			ex.vc.Assume(f)
		}
	}
	switch kindOf(t) {
	case KSlice:
		a, ok := v.(*Agg)
		if !ok {
			return
		}
		off, ln, cp := sc(a.F[1]).T, sc(a.F[2]).T, sc(a.F[3]).T
		z := bvInt(0, 64)
		lim := bvInt(1<<40, 64)
		as(and(app("bvsle", z, off), app("bvsle", z, ln), app("bvsle", ln, cp), app("bvsle", cp, lim), app("bvsle", off, lim)))
		as(implies(eq(sc(a.F[0]).T, z), and(eq(ln, z), eq(cp, z))))
	case KStr:
		s := sc(v)
		as(app("bvsle", bvInt(0, 64), app("Str_len", s.T)))
		as(app("bvsle", app("Str_len", s.T), bvInt(1<<40, 64)))
	case KStruct:
		a, ok := v.(*Agg)
		if !ok {
			return
		}
		st2 := t.Underlying().(*types.Struct)
		for i := 0; i < st2.NumFields(); i++ {
			ex.typeInv(st, a.F[i], st2.Field(i).Type())
		}
	case KTuple:
		a, ok := v.(*Agg)
		if !ok {
			return
		}
		tu := t.(*types.Tuple)
		for i := 0; i < tu.Len(); i++ {
			ex.typeInv(st, a.F[i], tu.At(i).Type())
		}
	}
}

// validRef assumes that a pointer-like value read from memory or received as
// a parameter is nil or allocated.
func (ex *Exec) validRefs(st *State, v Val, t types.Type) {
	// a reference obtained from memory (or from a caller) is nil or allocated,
	// and is not one of this activation's objects that never escaped
	notLocal := func(r string) string {
		var cs []string
		for _, l := range ex.localRefs {
			if !ex.escaped[l] && l != r {
				cs = append(cs, not(eq(r, l)))
			}
		}
		return and(cs...)
	}
	switch kindOf(t) {
	case KPtr, KMap:
		if s, ok := v.(Sc); ok {
			ex.assume(st, or(eq(s.T, bvInt(0, 64)), and(sel(st.alloc, s.T), notLocal(s.T))))
		}
	case KSlice:
		if a, ok := v.(*Agg); ok {
			r := sc(a.F[0]).T
			ex.assume(st, or(eq(r, bvInt(0, 64)), and(sel(st.alloc, r), notLocal(r))))
		}
	case KStruct:
		if a, ok := v.(*Agg); ok {
			s := t.Underlying().(*types.Struct)
			for i := 0; i < s.NumFields(); i++ {
				ex.validRefs(st, a.F[i], s.Field(i).Type())
			}
		}
	}
}

func (ex *Exec) freshRef(st *State, hint string) string {
	r := ex.vc.Fresh(hint, SRef)
	ex.assume(st, and(not(eq(r, bvInt(0, 64))), not(sel(st.alloc, r))))
	st.alloc = ex.vc.Bind("alloc", ArrS(SRef, SBool), sto(st.alloc, r, "true"))
	ex.localRefs = append(ex.localRefs, r)
	return r
}

// ---------------------------------------------------------------------------
// constants

func (ex *Exec) constVal(c *ssa.Const) Val {
	t := c.Type()
	if c.Value == nil {
		return zeroVal(t)
	}
	switch kindOf(t) {
	case KStr:
		return Sc{ex.strLit(constant.StringVal(c.Value)), SStr}
	case KScalar:
		b := t.Underlying().(*types.Basic)
		switch {
		case b.Info()&types.IsBoolean != 0:
			if constant.BoolVal(c.Value) {
				return Sc{"true", SBool}
			}
			return Sc{"false", SBool}
		case b.Info()&types.IsInteger != 0:
			s := basicSort(b)
			bi, _ := new(bigInt).SetString(c.Value.ExactString(), 10)
			if bi == nil {
				// e.g. 100e3 typed as int: go through ToInt
				iv := constant.ToInt(c.Value)
				bi, _ = new(bigInt).SetString(iv.ExactString(), 10)
			}
			return Sc{bvLit(bi, s.Width()), s}
		case b.Info()&types.IsFloat != 0:
			f, _ := constant.Float64Val(c.Value)
			return Sc{fpLit(f), SFP}
		}
	}
	ex.unsupportedf("constant %v of type %v", c, t)
	return nil
}

func fpLit(f float64) string {
	bits := math.Float64bits(f)
	return fmt.Sprintf("(fp #b%01b #b%011b #x%013x)", bits>>63, (bits>>52)&0x7ff, bits&((1<<52)-1))
}

func (ex *Exec) strLit(s string) string {
	if n, ok := ex.vc.strLits[s]; ok {
		return n
	}
	if s == "" {
		return "Str_empty"
	}
	n := ex.vc.Fresh("lit_"+s, SStr)
	ex.vc.strLits[s] = n
	ex.vc.Assume(eq(app("Str_len", n), bvInt(int64(len(s)), 64)))
	if len(s) <= 64 {
		for i := 0; i < len(s); i++ {
			ex.vc.Assume(eq(app("Str_at", n, bvInt(int64(i), 64)), bvInt(int64(s[i]), 8)))
		}
	}
	return n
}

// ---------------------------------------------------------------------------
// operand evaluation

func (ex *Exec) val(fr *Frame, v ssa.Value) Val {
	switch x := v.(type) {
	case *ssa.Const:
		return ex.constVal(x)
	case *ssa.Global:
		return &PtrI{&Addr{Kind: AGlobal, Glob: x, ArrLen: -1}}
	case *ssa.Function:
		return &Clo{Fn: x}
	case *ssa.Builtin:
		return x
	}
	r, ok := fr.regs[v]
	if !ok {
		ex.unsupportedf("use of undefined value %s (%T) in %s", v.Name(), v, fr.fn.Name())
	}
	return r
}

// derefAddr turns a pointer value into the address of its pointee.
func (ex *Exec) derefAddr(st *State, fr *Frame, pv Val, ptrT types.Type, pos token.Pos, src string) *Addr {
	switch p := pv.(type) {
	case *PtrI:
		return p.A
	case Sc:
		if !ex.isLocalRef(p.T) {
			ex.oblige(st, fr, "nil", pos, src, not(eq(p.T, bvInt(0, 64))))
		}
		return rootAddr(p.T, ptrT)
	}
	ex.unsupportedf("dereference of %T", pv)
	return nil
}

func rootAddr(ref string, ptrT types.Type) *Addr {
	pt, ok := ptrT.Underlying().(*types.Pointer)
	if !ok {
		panic("rootAddr: not a pointer type " + ptrT.String())
	}
	el := pt.Elem()
	if kindOf(el) == KArr {
		at := el.Underlying().(*types.Array)
		return &Addr{Kind: AElems, Root: at.Elem(), Ref: ref, ArrLen: at.Len()}
	}
	return &Addr{Kind: AHeap, Root: el, Ref: ref, ArrLen: -1}
}

// toIdx converts an integer value used as an index to a 64-bit term
// (sign-extended for signed types so that negatives fail the unsigned bound
// check, exactly like the runtime).
func toIdx(v Val, t types.Type) string {
	s := sc(v)
	return resize(s.T, s.S.Width(), 64, isSigned(t))
}

// sliceParts views any slice-like value as (elemAddr func, len, cap).
type sliceView struct {
	root   bool
	ref    string // root form
	back   *Addr  // interior form
	off    string
	ln, cp string
	elemT  types.Type
}

func (sv *sliceView) elemAddr(i string) *Addr {
	idx := app("bvadd", sv.off, i)
	if k, ok := constBV(sv.off); ok && k == 0 {
		idx = i
	}
	if sv.root {
		return &Addr{Kind: AElems, Root: sv.elemT, Ref: sv.ref, ArrLen: -1, Path: []PathEl{{IsIdx: true, Idx: idx}}}
	}
	return sv.back.ext(PathEl{IsIdx: true, Idx: idx})
}

func (ex *Exec) viewSlice(v Val, t types.Type) *sliceView {
	el := t.Underlying().(*types.Slice).Elem()
	switch s := v.(type) {
	case *Agg:
		return &sliceView{root: true, ref: sc(s.F[0]).T, off: sc(s.F[1]).T, ln: sc(s.F[2]).T, cp: sc(s.F[3]).T, elemT: el}
	case *SliceI:
		return &sliceView{back: s.A, off: s.Off, ln: s.Len, cp: s.Cap, elemT: el}
	}
	ex.unsupportedf("slice view of %T", v)
	return nil
}

// ---------------------------------------------------------------------------
// source text helpers (Loader owns the ASTs)

func nodeText(fset *token.FileSet, n ast.Node) string {
	var b bytes.Buffer
	printer.Fprint(&b, fset, n)
	s := b.String()
	s = strings.Join(strings.Fields(s), " ")
	if len(s) > 120 {
		s = s[:117] + "..."
	}
	return s
}

// ---------------------------------------------------------------------------
// state merging

func (ex *Exec) mergeVals(g string, a, b Val, hint string) Val {
	if a == nil {
		return b
	}
	if b == nil {
		return a
	}
	switch x := a.(type) {
	case *PtrI:
		y, ok := b.(*PtrI)
		if ok && x.A.String() == y.A.String() {
			return a
		}
		ex.unsupportedf("merge of different interior pointers (%s)", hint)
	case *SliceI:
		y, ok := b.(*SliceI)
		if ok && x.A.String() == y.A.String() {
			return &SliceI{A: x.A, Off: ex.vc.Bind(hint, BV(64), ite(g, x.Off, y.Off)), Len: ex.vc.Bind(hint, BV(64), ite(g, x.Len, y.Len)), Cap: ex.vc.Bind(hint, BV(64), ite(g, x.Cap, y.Cap))}
		}
		ex.unsupportedf("merge of different interior slices (%s)", hint)
	case *Clo:
		y, ok := b.(*Clo)
		if ok && x.Fn == y.Fn {
			return a
		}
		ex.unsupportedf("merge of different closures (%s)", hint)
	case *ssa.Builtin:
		return a
	}
	if isExecOnly(a) || isExecOnly(b) {
		// aggregate containing exec-only parts
		xa, ok1 := a.(*Agg)
		xb, ok2 := b.(*Agg)
		if ok1 && ok2 && len(xa.F) == len(xb.F) {
			n := &Agg{F: make([]Val, len(xa.F))}
			for i := range xa.F {
				n.F[i] = ex.mergeVals(g, xa.F[i], xb.F[i], hint)
			}
			return n
		}
		ex.unsupportedf("merge of exec-only value with symbolic value (%s): %T vs %T", hint, a, b)
	}
	defer func() {
		if r := recover(); r != nil {
			if s, ok := r.(string); ok && strings.HasPrefix(s, "leafZip") {
				ex.unsupportedf("merge shape mismatch (%s): %s", hint, s)
			}
			panic(r)
		}
	}()
	return leafZip(a, b, func(x, y Sc) Sc {
		if x.T == y.T {
			return x
		}
		return Sc{ex.vc.Bind(hint, x.S, ite(g, x.T, y.T)), x.S}
	})
}

// mergeStates merges b into a: result is "if ga then a else b" with guard ga∨gb.
func (ex *Exec) mergeStates(a, b *State) *State {
	if a == nil {
		return b
	}
	if b == nil {
		return a
	}
	if a.guard == "false" {
		return b
	}
	if b.guard == "false" {
		return a
	}
	n := ex.mergeWith(a.guard, a, b)
	n.guard = ex.vc.Bind("g", SBool, or(a.guard, b.guard))
	// the per-path lock snapshots are merged under the same condition
	switch {
	case a.lockSnap == nil:
		n.lockSnap = b.lockSnap
	case b.lockSnap == nil || a.lockSnap == b.lockSnap:
		n.lockSnap = a.lockSnap
	default:
		n.lockSnap = ex.mergeWith(a.guard, a.lockSnap, b.lockSnap)
		n.lockSnap.lockSnap = nil
	}
	return n
}

// mergeWith builds "if g then a else b" component-wise.
func (ex *Exec) mergeWith(g string, a, b *State) *State {
	n := a.clone()
	for c, bv := range b.cells {
		if av, ok := a.cells[c]; ok {
			n.cells[c] = ex.mergeVals(g, av, bv, c.Comment)
		} else {
			n.cells[c] = bv
		}
	}
	for gl, bv := range b.globs {
		av := ex.globalVal(a, gl)
		n.globs[gl] = ex.mergeVals(g, av, bv, gl.Name())
	}
	for gl, av := range a.globs {
		if _, ok := b.globs[gl]; !ok {
			n.globs[gl] = ex.mergeVals(g, av, ex.globalVal(b, gl), gl.Name())
		}
	}
	// heap
	keys := map[string]bool{}
	if a.epoch != b.epoch {
		for k := range ex.comps {
			keys[k] = true
		}
	}
	for k := range a.heap {
		keys[k] = true
	}
	for k := range b.heap {
		keys[k] = true
	}
	ks := make([]string, 0, len(keys))
	for k := range keys {
		ks = append(ks, k)
	}
	sort.Strings(ks)
	if a.epoch != b.epoch {
		ex.epochs++
		ex.epochInfo[ex.epochs] = epochInfo{parent: a.epoch, all: true, isMerge: true, mergeA: a.epoch, mergeB: b.epoch, mergeG: g}
		n.epoch = ex.epochs
	}
	for _, k := range ks {
		ci := ex.comps[k]
		at, bt := ex.comp(a, k, ci.sort), ex.comp(b, k, ci.sort)
		if at == bt && a.epoch == b.epoch {
			if _, ok := a.heap[k]; ok {
				n.heap[k] = at
			}
			continue
		}
		n.heap[k] = ex.vc.Bind("h_"+k, ci.sort, ite(g, at, bt))
	}
	if a.alloc != b.alloc {
		n.alloc = ex.vc.Bind("alloc", ArrS(SRef, SBool), ite(g, a.alloc, b.alloc))
	}
	lk := map[string]bool{}
	for k := range a.locks {
		lk[k] = true
	}
	for k := range b.locks {
		lk[k] = true
	}
	for k := range lk {
		av, bv := lockTerm(a, k), lockTerm(b, k)
		n.locks[k] = ex.vc.Bind("held", SBool, ite(g, av, bv))
	}
	for k, bv := range b.ghost {
		if av, ok := a.ghost[k]; ok {
			n.ghost[k] = ex.mergeVals(g, av, bv, k)
		} else {
			n.ghost[k] = bv
		}
	}
	// defers: union keyed by instruction
	n.defers = nil
	seen := map[*ssa.Defer]int{}
	// (defer guards are absolute path conditions)
	for _, d := range a.defers {
		seen[d.call] = len(n.defers)
		n.defers = append(n.defers, d)
	}
	for _, d := range b.defers {
		if i, ok := seen[d.call]; ok {
			n.defers[i].guard = ex.vc.Bind("dg", SBool, or(n.defers[i].guard, d.guard))
		} else {
			n.defers = append(n.defers, d)
		}
	}
	return n
}

func lockTerm(s *State, k string) string {
	if t, ok := s.locks[k]; ok {
		return t
	}
	return "false"
}

func (ex *Exec) isLocalRef(r string) bool {
	for _, l := range ex.localRefs {
		if l == r {
			return true
		}
	}
	return false
}
