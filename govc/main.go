package main

import (
	"flag"
	"fmt"
	"os"
	"runtime"
	"runtime/pprof"
	"sort"
	"strings"
)

func usage() {
	fmt.Fprintln(os.Stderr, `usage:
  govc sweep  [-repo DIR] [-tags T] [-t S] [-q] FUNC...      verify named functions, print every obligation
  govc dump   [-repo DIR] [-tags T] FUNC OBLIGATION-SUBSTR    print the SMT query of an obligation
  govc funcs  [-repo DIR] [-tags T]                           list functions of the module
  govc check  -prop ID -tier quick|thorough [-repo DIR]       property check (writes evidence)
  govc selftest [-repo DIR]                                    must-fail corpus`)
	os.Exit(2)
}

func main() {
	if len(os.Args) < 2 {
		usage()
	}
	if pf := os.Getenv("GOVC_PROF"); pf != "" {
		f, _ := os.Create(pf)
		pprof.StartCPUProfile(f)
		defer pprof.StopCPUProfile()
	}
	switch os.Args[1] {
	case "sweep":
		cmdSweep(os.Args[2:])
	case "dump":
		cmdDump(os.Args[2:])
	case "funcs":
		cmdFuncs(os.Args[2:])
	case "check":
		cmdCheck(os.Args[2:])
	case "selftest":
		cmdSelftest(os.Args[2:])
	case "witness":
		cmdWitness(os.Args[2:])
	case "replay":
		cmdReplay(os.Args[2:])
	default:
		usage()
	}
}

var pkgList = []string{"glow", "server", "client"}

func loadAll(repo, tags string) (*Loader, *ContractDB) {
	ld, err := Load(repo, tags, "./glow", "./server", "./client")
	if err != nil {
		fmt.Fprintln(os.Stderr, "load:", err)
		os.Exit(3)
	}
	db, err := loadContracts(repo, pkgList)
	if err != nil {
		fmt.Fprintln(os.Stderr, "contracts:", err)
		os.Exit(3)
	}
	return ld, db
}

func cmdFuncs(args []string) {
	fs := flag.NewFlagSet("funcs", flag.ExitOnError)
	repo := fs.String("repo", "/repo", "")
	tags := fs.String("tags", "verif", "")
	fs.Parse(args)
	ld, _ := loadAll(*repo, *tags)
	var ns []string
	for n := range ld.funcs {
		ns = append(ns, n)
	}
	sort.Strings(ns)
	for _, n := range ns {
		fmt.Println(n)
	}
}

func cmdSweep(args []string) {
	fs := flag.NewFlagSet("sweep", flag.ExitOnError)
	repo := fs.String("repo", "/repo", "")
	tags := fs.String("tags", "verif", "")
	timeout := fs.Int("t", 10, "solver timeout (s)")
	quiet := fs.Bool("q", false, "only print failing obligations")
	locks := fs.Bool("locks", true, "lock discipline checks")
	fs.Parse(args)
	ld, db := loadAll(*repo, *tags)
	bad := 0
	for _, name := range fs.Args() {
		fn := ld.funcs[name]
		if fn == nil {
			fmt.Printf("no such function %s\n", name)
			bad++
			continue
		}
		vc, ex, err := VerifyFunc(ld, db, fn, db.funcs[name], verifyOpts{lockChecks: *locks})
		if err != nil {
			fmt.Printf("%s: %v\n", name, err)
			bad++
			if vc == nil {
				continue
			}
		}
		Discharge(vc.obls, *timeout, false, runtime.NumCPU())
		for _, o := range vc.obls {
			if *quiet && o.Result == "unsat" {
				continue
			}
			fmt.Printf("%-8s %-7s %5.2fs  %s\n", o.Result, o.Solver, o.TimeS, o.Name)
			if o.Result != "unsat" {
				bad++
				fmt.Printf("         at %s\n         %s\n", o.Pos, strings.ReplaceAll(firstLines(o.Model, 12), " | ", "\n         "))
			}
		}
		fmt.Printf("%s: %d obligations, %d cmds\n", name, len(vc.obls), len(vc.cmds))
		if ex != nil {
			for _, a := range sortedKeys(ex.abstracted) {
				fmt.Println("  abstracted:", a)
			}
			for _, a := range sortedKeys(vc.trusted) {
				fmt.Println("  trusted:", a)
			}
		}
	}
	if bad > 0 {
		os.Exit(1)
	}
}

func cmdDump(args []string) {
	fs := flag.NewFlagSet("dump", flag.ExitOnError)
	repo := fs.String("repo", "/repo", "")
	tags := fs.String("tags", "verif", "")
	fs.Parse(args)
	ld, db := loadAll(*repo, *tags)
	name := fs.Arg(0)
	fn := ld.funcs[name]
	if fn == nil {
		fmt.Println("no such function")
		os.Exit(1)
	}
	vc, _, err := VerifyFunc(ld, db, fn, db.funcs[name], verifyOpts{lockChecks: true})
	if err != nil {
		fmt.Fprintln(os.Stderr, err)
	}
	if fs.Arg(1) == "@exit" {
		eo := &Obl{vc: vc, Prefix: vc.exitPrefix, Guard: vc.exitGuard, Goal: "true"}
		fmt.Printf("; reachability of the normal exit of %s\n%s\n", name, eo.ReachQuery())
		return
	}
	for _, o := range vc.obls {
		if strings.Contains(o.Name, fs.Arg(1)) {
			if os.Getenv("GOVC_GROUND") == "1" {
				o.DropQuantified = true
			}
			if os.Getenv("GOVC_FOCUS") == "1" {
				o.Focus = true
			}
			if os.Getenv("GOVC_LEAN") == "1" {
				o.Lean = true
			}
			if os.Getenv("GOVC_LAMBDAQ") == "1" {
				o.Lambda = true
			}
			fmt.Printf("; %s\n%s\n", o.Name, o.Query(true))
			return
		}
	}
	fmt.Println("no such obligation; have:")
	for _, o := range vc.obls {
		fmt.Println("  ", o.Name)
	}
}

// cmdWitness: find a counterexample of one obligation inside an input class
// and replay it on the real code (used to confirm findings by hand).
func cmdWitness(args []string) {
	fs := flag.NewFlagSet("witness", flag.ExitOnError)
	repo := fs.String("repo", "/repo", "")
	tags := fs.String("tags", "verif", "")
	verif := fs.String("verif", "/verif", "")
	class := fs.String("assume", "true", "contract-language predicate restricting the inputs")
	timeout := fs.Int("t", 60, "")
	fs.Parse(args)
	ld, db := loadAll(*repo, *tags)
	name := fs.Arg(0)
	fn := ld.funcs[name]
	if fn == nil {
		fmt.Println("no such function")
		os.Exit(1)
	}
	vc, ex, err := VerifyFunc(ld, db, fn, db.funcs[name], verifyOpts{lockChecks: true})
	if err != nil {
		fmt.Fprintln(os.Stderr, err)
	}
	for _, o := range vc.obls {
		if !strings.Contains(o.Name, fs.Arg(1)) {
			continue
		}
		e, perr := parseExpr(*class)
		if perr != nil {
			fmt.Println(perr)
			os.Exit(1)
		}
		before := len(vc.cmds)
		t := ex.evalBool(ex.topFrame, ex.topFrame.entry, ex.topFrame.entry, nil, e)
		o.Extra = append([]string{}, vc.cmds[before:]...)
		vc.cmds = vc.cmds[:before]
		o.ExtraAssert = "(assert " + t + ")\n"
		cr := &checkRun{repo: *repo, verifDir: *verif, timeout: *timeout, oblExec: map[*Obl]*Exec{o: ex}}
		out, ok := tryReplay(cr, o)
		fmt.Printf("obligation %s\nreplayed=%v\n%s\n", o.Name, ok, out)
		return
	}
	fmt.Println("no such obligation")
}
