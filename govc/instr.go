package main

import (
	"strings"
	"sort"
	"fmt"
	"go/token"
	"go/types"

	"golang.org/x/tools/go/ssa"
)

func z64() string { return bvInt(0, 64) }

// step executes one non-terminator instruction.
func (ex *Exec) step(st *State, fr *Frame, ins ssa.Instruction) {
	switch x := ins.(type) {
	case *ssa.DebugRef:
	case *ssa.Alloc:
		ex.doAlloc(st, fr, x)
	case *ssa.BinOp:
		fr.regs[x] = ex.bindVal(x.Name(), ex.binop(st, fr, x.Op, ex.val(fr, x.X), ex.val(fr, x.Y), x.X.Type(), x.Y.Type(), x.Pos(), x))
	case *ssa.UnOp:
		ex.doUnOp(st, fr, x)
	case *ssa.ChangeType:
		fr.regs[x] = ex.val(fr, x.X)
	case *ssa.ChangeInterface:
		fr.regs[x] = ex.val(fr, x.X)
	case *ssa.Convert:
		fr.regs[x] = ex.bindVal(x.Name(), ex.convert(st, fr, ex.val(fr, x.X), x.X.Type(), x.Type(), x))
	case *ssa.MultiConvert:
		fr.regs[x] = ex.bindVal(x.Name(), ex.convert(st, fr, ex.val(fr, x.X), x.X.Type(), x.Type(), x))
	case *ssa.Extract:
		fr.regs[x] = ex.val(fr, x.Tuple).(*Agg).F[x.Index]
	case *ssa.Field:
		v := ex.val(fr, x.X)
		a, ok := v.(*Agg)
		if !ok {
			ex.unsupportedf("field of %T", v)
		}
		fr.regs[x] = a.F[x.Field]
	case *ssa.FieldAddr:
		a := ex.derefAddr(st, fr, ex.val(fr, x.X), x.X.Type(), x.Pos(), ex.selText(x.Pos(), x.X))
		fr.regs[x] = &PtrI{a.ext(PathEl{Field: x.Field})}
	case *ssa.Index:
		ex.doIndex(st, fr, x)
	case *ssa.IndexAddr:
		ex.doIndexAddr(st, fr, x)
	case *ssa.Lookup:
		ex.doLookup(st, fr, x)
	case *ssa.MakeInterface:
		h := ex.vc.Fresh("iface", SRef)
		ex.vc.Assume(not(eq(h, z64())))
		// remember the dynamic payload for later type assertions
		ex.ifacePayload[h] = ifaceRec{ex.val(fr, x.X), x.X.Type()}
		fr.regs[x] = Sc{h, SRef}
	case *ssa.MakeMap:
		fr.regs[x] = ex.makeMap(st, x.Type())
	case *ssa.MakeSlice:
		ex.doMakeSlice(st, fr, x)
	case *ssa.MakeChan:
		h := ex.vc.Fresh("chan", SRef)
		ex.vc.Assume(not(eq(h, z64())))
		fr.regs[x] = Sc{h, SRef}
	case *ssa.MakeClosure:
		c := &Clo{Fn: x.Fn.(*ssa.Function)}
		for _, b := range x.Bindings {
			c.Binds = append(c.Binds, ex.val(fr, b))
		}
		fr.regs[x] = c
	case *ssa.MapUpdate:
		ex.doMapUpdate(st, fr, x)
	case *ssa.Range:
		fr.regs[x] = ex.val(fr, x.X) // iterator = the collection
		if kindOf(x.X.Type()) == KMap {
			mi := ex.mapInfo(x.X.Type())
			s := ArrS(mi.ksort, SBool)
			st.ghost[fmt.Sprintf("$visited_%p", x)] = Sc{fmt.Sprintf("((as const %s) false)", s), s}
			st.ghost[fmt.Sprintf("$vcount_%p", x)] = Sc{z64(), BV(64)}
			ex.curRange = x
		}
	case *ssa.Next:
		ex.doNext(st, fr, x)
	case *ssa.Slice:
		ex.doSlice(st, fr, x)
	case *ssa.SliceToArrayPointer:
		ex.unsupportedf("slice to array pointer conversion")
	case *ssa.Store:
		ex.doStore(st, fr, x)
	case *ssa.TypeAssert:
		ex.doTypeAssert(st, fr, x)
	case *ssa.Call:
		ex.callAsserts(st, fr, x)
		res := ex.call(st, fr, x.Common(), x, x.Pos())
		if res != nil {
			fr.regs[x] = res
		}
	case *ssa.Defer:
		st.defers = append(st.defers, deferEntry{guard: st.guard, call: x, frame: fr})
	case *ssa.Go:
		ex.abstracted["goroutine launch in "+funcName(fr.fn)+" (body verified separately if under contract)"] = true
	case *ssa.RunDefers:
		ex.runDefers(st, fr)
	case *ssa.Send:
		ex.abstracted["channel send in "+funcName(fr.fn)] = true
	case *ssa.Select:
		ex.unsupportedf("select statement")
	default:
		ex.unsupportedf("instruction %T", ins)
	}
}

type ifaceRec struct {
	v Val
	t types.Type
}

func (ex *Exec) selText(pos token.Pos, base ssa.Value) string {
	s := ex.srcText(pos)
	return s
}

// cellLike: a local that the SSA builder put on the heap only because a
// closure captures it, where that closure is passed straight to sort.Slice
// (which calls it synchronously and does not retain it). Such a local is
// private to the activation and is modelled as a cell.
func cellLike(x *ssa.Alloc) bool {
	if !x.Heap || x.Referrers() == nil {
		return false
	}
	sawClosure := false
	for _, r := range *x.Referrers() {
		switch u := r.(type) {
		case *ssa.UnOp:
			if u.Op != token.MUL {
				return false
			}
		case *ssa.Store:
			if u.Addr != x {
				return false // the address itself is stored somewhere
			}
		case *ssa.DebugRef:
		case *ssa.MakeClosure:
			sawClosure = true
			if u.Referrers() == nil {
				return false
			}
			for _, cr := range *u.Referrers() {
				call, ok := cr.(*ssa.Call)
				if !ok {
					return false
				}
				fn, ok := call.Call.Value.(*ssa.Function)
				if !ok || fn.Pkg == nil || fn.Pkg.Pkg.Path() != "sort" || (fn.Name() != "Slice" && fn.Name() != "SliceStable") {
					return false
				}
			}
		default:
			return false
		}
	}
	return sawClosure
}

func (ex *Exec) doAlloc(st *State, fr *Frame, x *ssa.Alloc) {
	t := x.Type().Underlying().(*types.Pointer).Elem()
	if !x.Heap || cellLike(x) {
		st.cells[x] = zeroVal(t)
		fr.regs[x] = &PtrI{&Addr{Kind: ACell, Cell: x, ArrLen: -1}}
		return
	}
	r := ex.freshRef(st, "new_"+x.Comment)
	a := rootAddr(r, x.Type())
	ex.store(st, a, zeroVal(t))
	fr.regs[x] = Sc{r, SRef}
}

func (ex *Exec) doUnOp(st *State, fr *Frame, x *ssa.UnOp) {
	v := ex.val(fr, x.X)
	switch x.Op {
	case token.MUL: // load
		a := ex.derefAddr(st, fr, v, x.X.Type(), x.Pos(), "")
		ex.guardedAccess(st, fr, a, x.Pos())
		lv := ex.load(st, a)
		if a.Kind == AHeap || a.Kind == AElems || a.Kind == AGlobal {
			ex.validRefs(st, lv, x.Type())
			ex.typeInv(st, lv, x.Type())
		}
		fr.regs[x] = ex.bindVal(x.Name(), lv)
	case token.NOT:
		fr.regs[x] = Sc{not(sc(v).T), SBool}
	case token.SUB:
		s := sc(v)
		if s.S == SFP {
			fr.regs[x] = Sc{app("fp.neg", s.T), SFP}
		} else {
			fr.regs[x] = Sc{app("bvneg", s.T), s.S}
		}
	case token.XOR:
		s := sc(v)
		fr.regs[x] = Sc{app("bvnot", s.T), s.S}
	case token.ARROW:
		ex.abstracted["channel receive in "+funcName(fr.fn)] = true
		if x.CommaOk {
			fr.regs[x] = &Agg{F: []Val{ex.freshVal(x.Type().(*types.Tuple).At(0).Type(), "recv"), Sc{ex.vc.Fresh("recvok", SBool), SBool}}}
		} else {
			fr.regs[x] = ex.freshVal(x.Type(), "recv")
		}
	default:
		ex.unsupportedf("unary op %v", x.Op)
	}
}

func (ex *Exec) doStore(st *State, fr *Frame, x *ssa.Store) {
	v := ex.val(fr, x.Val)
	a := ex.derefAddr(st, fr, ex.val(fr, x.Addr), x.Addr.Type(), x.Pos(), "")
	if a.Kind != ACell {
		if isExecOnly(v) {
			ex.unsupportedf("store of %T into the heap at %s", v, a)
		}
		ex.markEscaped(v)
		ex.checkAssigns(st, fr, a, x.Pos())
	}
	ex.store(st, a, v)
	// program-point assertions of the verified function's contract
	if top := ex.topFrame; top != nil && top.ct != nil && fr == top && len(top.ct.StoreAsserts) > 0 && a.Kind == AHeap && len(a.Path) == 1 && !a.Path[0].IsIdx {
		if stt, ok := a.Root.Underlying().(*types.Struct); ok {
			var stones []invConjE
			for _, cl := range top.ct.StoreAsserts[stt.Field(a.Path[0].Field).Name()] {
				for _, part := range ex.splitClauseE(top, st, nil, cl) {
					// universally quantified assertions are proved for skolem constants
					// (with explicit instances of the recorded hypotheses) and then
					// serve as a recorded hypothesis themselves: a stepping stone
					full := part.term
					term := full
					sk, isQ := ex.skolemWithHyps(fr, st, part)
					if isQ {
						term = sk
					}
					o := ex.oblige(st, fr, "assert-after-store("+stt.Field(a.Path[0].Field).Name()+")", x.Pos(), part.text, term)
					if o != nil && len(cl.Props) > 0 {
						o.Props = cl.Props
					}
					if isQ {
						ex.assume(st, full)
						stones = append(stones, part)
					}
				}
			}
			if len(stones) > 0 {
				ex.hyps = append(ex.hyps, hypRecord{state: st.clone(), parts: stones})
			}
		}
	}
}

// markEscaped records fresh refs that become reachable from shared memory.
func (ex *Exec) markEscaped(v Val) {
	if isExecOnly(v) {
		return
	}
	for _, l := range leavesOf(v) {
		if l.S == SRef {
			ex.markEscapedTerm(l.T, map[string]bool{})
		}
	}
}

// markEscapedAny also looks inside executor-only values (interior pointers
// and slices into local objects).
func (ex *Exec) markEscapedAny(v Val) {
	switch x := v.(type) {
	case *PtrI:
		if x.A.Ref != "" {
			ex.markEscapedTerm(x.A.Ref, map[string]bool{})
		}
	case *SliceI:
		if x.A.Ref != "" {
			ex.markEscapedTerm(x.A.Ref, map[string]bool{})
		}
	case *Clo:
		for _, b := range x.Binds {
			ex.markEscapedAny(b)
		}
	case *Agg:
		for _, f := range x.F {
			ex.markEscapedAny(f)
		}
	case Sc:
		if x.S == SRef {
			ex.markEscapedTerm(x.T, map[string]bool{})
		}
	case *Arr:
		ex.markEscaped(v)
	}
}

// markEscapedTerm marks every local allocation that the term may denote
// (looking through bound names and ite-merges).
func (ex *Exec) markEscapedTerm(t string, seen map[string]bool) {
	for _, tok := range tokenRe.FindAllString(t, -1) {
		if seen[tok] {
			continue
		}
		seen[tok] = true
		if ex.isLocalRef(tok) {
			ex.escaped[tok] = true
		}
		if d, ok := ex.vc.defs[tok]; ok {
			ex.markEscapedTerm(d, seen)
		}
	}
}

func (ex *Exec) doIndex(st *State, fr *Frame, x *ssa.Index) {
	v := ex.val(fr, x.X)
	i := toIdx(ex.val(fr, x.Index), x.Index.Type())
	switch kindOf(x.X.Type()) {
	case KStr:
		s := sc(v)
		ex.oblige(st, fr, "index", x.Pos(), "", app("bvult", i, app("Str_len", s.T)))
		fr.regs[x] = Sc{app("Str_at", s.T, i), BV(8)}
	case KPacked:
		n := x.X.Type().Underlying().(*types.Array).Len()
		ex.oblige(st, fr, "index", x.Pos(), "", app("bvult", i, bvInt(n, 64)))
		fr.regs[x] = Sc{packedByte(sc(v), i), BV(8)}
	case KArr:
		n := x.X.Type().Underlying().(*types.Array).Len()
		ex.oblige(st, fr, "index", x.Pos(), "", app("bvult", i, bvInt(n, 64)))
		fr.regs[x] = ex.bindVal(x.Name(), leafMap(v.(*Arr).E, func(l Sc) Sc { return Sc{sel(l.T, i), peel(l.S, 1)} }))
	default:
		ex.unsupportedf("index of %v", x.X.Type())
	}
}

func (ex *Exec) doIndexAddr(st *State, fr *Frame, x *ssa.IndexAddr) {
	v := ex.val(fr, x.X)
	i := ex.vc.Bind("idx", BV(64), toIdx(ex.val(fr, x.Index), x.Index.Type()))
	xt := x.X.Type()
	switch kindOf(xt) {
	case KSlice:
		sv := ex.viewSlice(v, xt)
		ex.oblige(st, fr, "index", x.Pos(), "", app("bvult", i, sv.ln))
		fr.regs[x] = &PtrI{sv.elemAddr(i)}
	case KPtr:
		a := ex.derefAddr(st, fr, v, xt, x.Pos(), "")
		at := xt.Underlying().(*types.Pointer).Elem().Underlying().(*types.Array)
		ex.oblige(st, fr, "index", x.Pos(), "", app("bvult", i, bvInt(at.Len(), 64)))
		fr.regs[x] = &PtrI{a.ext(PathEl{IsIdx: true, Idx: i})}
	default:
		ex.unsupportedf("indexaddr of %v", xt)
	}
}

// ---------------------------------------------------------------------------
// maps

type mapComps struct {
	key         string
	ksort       Sort
	kt, vt      types.Type
	domK, cardK string
	domS, cardS Sort
}

func (ex *Exec) mapInfo(t types.Type) *mapComps {
	mt := t.Underlying().(*types.Map)
	if !isSingleLeaf(mt.Key()) {
		ex.unsupportedf("map with aggregate key type %v", mt.Key())
	}
	ks := scalarSort(mt.Key())
	k := "Map_" + typeKey(mt)
	return &mapComps{key: k, ksort: ks, kt: mt.Key(), vt: mt.Elem(), domK: k + "_dom", cardK: k + "_card",
		domS: ArrS(SRef, ArrS(ks, SBool)), cardS: ArrS(SRef, BV(64))}
}

func (ex *Exec) mapValTree(st *State, mi *mapComps) Val {
	return mkVal(mi.vt, mi.key+"_val", func(s Sort) Sort { return ArrS(SRef, ArrS(mi.ksort, s)) },
		func(path string, s Sort) string { return ex.comp(st, path, s) })
}

func (ex *Exec) setMapValTree(st *State, mi *mapComps, tree Val) {
	ls := leavesOf(tree)
	i := 0
	mkVal(mi.vt, mi.key+"_val", func(s Sort) Sort { return ArrS(SRef, ArrS(mi.ksort, s)) },
		func(path string, s Sort) string {
			l := ls[i]
			i++
			ex.setComp(st, path, s, l.T)
			return l.T
		})
}

func (ex *Exec) setComp(st *State, key string, s Sort, t string) {
	if ex.comp(st, key, s) == t {
		return
	}
	st.heap[key] = ex.vc.Bind("h_"+key, s, t)
}

func (ex *Exec) mapDom(st *State, mi *mapComps, m string) string {
	return sel(ex.comp(st, mi.domK, mi.domS), m)
}

// mapGet returns (value-or-zero, present).
func (ex *Exec) mapGet(st *State, mt types.Type, m string, k string) (Val, string) {
	mi := ex.mapInfo(mt)
	present := ex.vc.Bind("present", SBool, and(not(eq(m, z64())), sel(ex.mapDom(st, mi, m), k)))
	zero := zeroVal(mi.vt)
	tree := ex.mapValTree(st, mi)
	v := leafZip(tree, zero, func(l, z Sc) Sc {
		return Sc{ite(present, sel(sel(l.T, m), k), z.T), z.S}
	})
	return v, present
}

// mapGetRaw reads the value array without the presence test (spec use).
func (ex *Exec) mapGetRaw(st *State, mt types.Type, m string, k string) Val {
	mi := ex.mapInfo(mt)
	tree := ex.mapValTree(st, mi)
	return leafMap(tree, func(l Sc) Sc { return Sc{sel(sel(l.T, m), k), peel(l.S, 2)} })
}

func (ex *Exec) doLookup(st *State, fr *Frame, x *ssa.Lookup) {
	xv := ex.val(fr, x.X)
	if kindOf(x.X.Type()) == KStr {
		s := sc(xv)
		i := toIdx(ex.val(fr, x.Index), x.Index.Type())
		ex.oblige(st, fr, "index", x.Pos(), "", app("bvult", i, app("Str_len", s.T)))
		fr.regs[x] = Sc{app("Str_at", s.T, i), BV(8)}
		return
	}
	m := sc(xv).T
	k := sc(ex.val(fr, x.Index)).T
	v, present := ex.mapGet(st, x.X.Type(), m, k)
	vt := x.X.Type().Underlying().(*types.Map).Elem()
	v = ex.bindVal(x.Name(), v)
	ex.validRefs(st, v, vt)
	ex.typeInv(st, v, vt)
	if x.CommaOk {
		fr.regs[x] = &Agg{F: []Val{v, Sc{present, SBool}}}
	} else {
		fr.regs[x] = v
	}
}

func (ex *Exec) makeMap(st *State, t types.Type) Val {
	mi := ex.mapInfo(t)
	r := ex.freshRef(st, "map")
	dom := ex.comp(st, mi.domK, mi.domS)
	ex.setComp(st, mi.domK, mi.domS, sto(dom, r, fmt.Sprintf("((as const %s) false)", ArrS(mi.ksort, SBool))))
	card := ex.comp(st, mi.cardK, mi.cardS)
	ex.setComp(st, mi.cardK, mi.cardS, sto(card, r, z64()))
	if gs := ex.ghostSumFor(t); gs != nil {
		ex.assume(st, eq(app(ex.sumFn(gs, mi), fmt.Sprintf("((as const %s) false)", ArrS(mi.ksort, SBool))), z64()))
	}
	return Sc{r, SRef}
}

// ghostSumFor finds a declared ghost sum for the map type.
func (ex *Exec) ghostSumFor(mt types.Type) *GhostSum {
	if len(ex.db.sums) == 0 || ex.topFrame == nil || ex.topFrame.entry == nil {
		return nil
	}
	key := mt.Underlying().String()
	if gs, ok := ex.sumCache[key]; ok {
		return gs
	}
	gs := ex.ghostSumLookup(mt)
	ex.sumCache[key] = gs
	return gs
}

func (ex *Exec) ghostSumLookup(mt types.Type) *GhostSum {
	for _, gs := range ex.db.sums {
		c := &evalCtx{ex: ex, fr: ex.topFrame, env: map[string]TVal{}, lets: map[string]Expr{}}
		for f := ex.top; f != nil; f = f.Parent() {
			if f.Pkg != nil {
				c.pkg = f.Pkg.Pkg
				break
			}
		}
		if p := c.findPkg(gs.Pkg); p != nil {
			c.pkg = p
		}
		t := func() (t types.Type) {
			defer func() { recover() }()
			return c.resolveType(gs.MapType)
		}()
		if t != nil && types.Identical(t.Underlying(), mt.Underlying()) {
			return gs
		}
	}
	return nil
}

func (ex *Exec) sumFn(gs *GhostSum, mi *mapComps) string {
	fn := "Sum_" + gs.Name
	ex.vc.DeclareFun(fn, []Sort{ArrS(mi.ksort, SBool)}, BV(64))
	return fn
}

// sumWeight evaluates the weight expression of a ghost sum at key k.
func (ex *Exec) sumWeight(st *State, gs *GhostSum, mi *mapComps, k string) string {
	c := ex.newCtx(ex.topFrame, st, st, nil)
	c.env = map[string]TVal{"k": {V: Sc{k, mi.ksort}, T: mi.kt}}
	c.lets = map[string]Expr{}
	if p := c.findPkg(gs.Pkg); p != nil {
		c.pkg = p
	}
	v := c.coerce(c.eval(gs.Weight), types.Typ[types.Int])
	return sc(v.V).T
}

func (ex *Exec) mapSet(st *State, mt types.Type, m, k string, v Val) {
	mi := ex.mapInfo(mt)
	domAll := ex.comp(st, mi.domK, mi.domS)
	dom := sel(domAll, m)
	was := sel(dom, k)
	if gs := ex.ghostSumFor(mt); gs != nil {
		fn := ex.sumFn(gs, mi)
		ndom := sto(dom, k, "true")
		ex.assume(st, eq(app(fn, ndom), ite(was, app(fn, dom), app("bvadd", app(fn, dom), ex.sumWeight(st, gs, mi, k)))))
		ex.vc.Trust("ghost sum " + gs.Name + ": insert/delete unfoldings of a finite sum over the map domain")
	}
	card := ex.comp(st, mi.cardK, mi.cardS)
	ex.setComp(st, mi.cardK, mi.cardS, sto(card, m, ite(was, sel(card, m), app("bvadd", sel(card, m), bvInt(1, 64)))))
	ex.setComp(st, mi.domK, mi.domS, sto(domAll, m, sto(dom, k, "true")))
	tree := ex.mapValTree(st, mi)
	nt := leafZip(tree, v, func(l, x Sc) Sc { return Sc{sto(l.T, m, sto(sel(l.T, m), k, x.T)), l.S} })
	ex.setMapValTree(st, mi, nt)
}

func (ex *Exec) mapDelete(st *State, mt types.Type, m, k string) {
	mi := ex.mapInfo(mt)
	domAll := ex.comp(st, mi.domK, mi.domS)
	dom := sel(domAll, m)
	was := and(not(eq(m, z64())), sel(dom, k))
	if gs := ex.ghostSumFor(mt); gs != nil {
		fn := ex.sumFn(gs, mi)
		ndom := sto(dom, k, "false")
		w := ex.sumWeight(st, gs, mi, k)
		ex.assume(st, eq(app(fn, ndom), ite(sel(dom, k), app("bvsub", app(fn, dom), w), app(fn, dom))))
		// a finite sum of non-negative weights is at least each of its terms and
		// stays non-negative when a term is removed
		ex.assume(st, implies(and(sel(dom, k), app("bvsge", w, z64()), app("bvsge", app(fn, dom), z64())), and(app("bvsge", app(fn, dom), w), app("bvsge", app(fn, ndom), z64()))))
	}
	card := ex.comp(st, mi.cardK, mi.cardS)
	ex.setComp(st, mi.cardK, mi.cardS, sto(card, m, ite(was, app("bvsub", sel(card, m), bvInt(1, 64)), sel(card, m))))
	// deleting from a nil map is a no-op
	ex.setComp(st, mi.domK, mi.domS, ite(eq(m, z64()), domAll, sto(domAll, m, sto(dom, k, "false"))))
}

func (ex *Exec) doMapUpdate(st *State, fr *Frame, x *ssa.MapUpdate) {
	m := sc(ex.val(fr, x.Map)).T
	k := sc(ex.val(fr, x.Key)).T
	v := ex.val(fr, x.Value)
	if isExecOnly(v) {
		ex.unsupportedf("map update with %T value", v)
	}
	ex.oblige(st, fr, "mapnil", x.Pos(), "", not(eq(m, z64())))
	ex.markEscaped(v)
	ex.checkAssignsMap(st, fr, x.Map.Type(), m, k, x.Pos())
	ex.mapSet(st, x.Map.Type(), m, k, v)
}

func (ex *Exec) doNext(st *State, fr *Frame, x *ssa.Next) {
	it := ex.val(fr, x.Iter)
	rng := x.Iter.(*ssa.Range)
	ok := ex.vc.Fresh("rangeok", SBool)
	if x.IsString {
		ex.unsupportedf("range over string")
	}
	mt := rng.X.Type()
	mi := ex.mapInfo(mt)
	m := sc(it).T
	k := ex.vc.Fresh("rangekey", mi.ksort)
	ex.assume(st, implies(ok, and(not(eq(m, z64())), sel(ex.mapDom(st, mi, m), k))))
	// ghost: keys already visited by this range statement are not produced again
	gk := fmt.Sprintf("$visited_%p", rng)
	if vis, has := st.ghost[gk]; has {
		ex.assume(st, implies(ok, not(sel(sc(vis).T, k))))
		// every key visited so far is (still) being iterated: it was in the map
		st.ghost[gk] = Sc{ex.vc.Bind("visited", ArrS(mi.ksort, SBool), ite(ok, sto(sc(vis).T, k, "true"), sc(vis).T)), ArrS(mi.ksort, SBool)}
		st.ghost["$curkey"] = Sc{k, mi.ksort}
		// a range over a map that is not modified meanwhile produces every key
		// exactly once: when it stops, all keys were visited and their number is
		// the map's cardinality
		ck := fmt.Sprintf("$vcount_%p", rng)
		if cnt, has := st.ghost[ck]; has {
			card := sel(ex.comp(st, mi.cardK, mi.cardS), m)
			ex.assume(st, implies(not(ok), and(eq(sc(cnt).T, card),
				fmt.Sprintf("(forall ((qk %s)) (! (=> (select %s qk) (select %s qk)) :pattern ((select %s qk))))", mi.ksort, ex.mapDom(st, mi, m), sc(vis).T, ex.mapDom(st, mi, m)))))
			ex.assume(st, app("bvsle", sc(cnt).T, card))
			st.ghost[ck] = Sc{ex.vc.Bind("vcount", BV(64), ite(ok, app("bvadd", sc(cnt).T, bvInt(1, 64)), sc(cnt).T)), BV(64)}
			ex.vc.Trust("range over a map not modified during the iteration visits each key exactly once (count = cardinality at the end)")
		}
	}
	v := ex.bindVal("rangeval", ex.mapGetRaw(st, mt, m, k))
	ex.validRefs(st, v, mi.vt)
	ex.typeInv(st, v, mi.vt)
	fr.regs[x] = &Agg{F: []Val{Sc{ok, SBool}, Sc{k, mi.ksort}, v}}
}

// ---------------------------------------------------------------------------
// slices

func (ex *Exec) doMakeSlice(st *State, fr *Frame, x *ssa.MakeSlice) {
	ln := toIdx(ex.val(fr, x.Len), x.Len.Type())
	cp := toIdx(ex.val(fr, x.Cap), x.Cap.Type())
	// negative or inconsistent sizes panic; sizes beyond available memory are a
	// resource failure that is not modelled (listed)
	ex.oblige(st, fr, "makeslice", x.Pos(), "", and(app("bvsle", z64(), ln), app("bvsle", ln, cp)))
	ex.assume(st, app("bvsle", cp, bvInt(1<<46, 64)))
	ex.vc.Trust("allocation sizes are assumed to fit in memory (make with a huge length is a resource failure, not modelled)")
	fr.regs[x] = ex.newSlice(st, x.Type(), ln, cp, "make")
}

func (ex *Exec) newSlice(st *State, t types.Type, ln, cp string, hint string) Val {
	return ex.newSliceRaw(st, t, ln, cp, hint, true)
}

// newSliceRaw allocates a backing store; with zeroInit false its content is
// left unconstrained (the caller describes it by assumptions).
func (ex *Exec) newSliceRaw(st *State, t types.Type, ln, cp string, hint string, zeroInit bool) Val {
	el := t.Underlying().(*types.Slice).Elem()
	r := ex.freshRef(st, hint)
	tree := ex.heapTree(st, AElems, el)
	zero := zeroVal(el)
	nt := leafZip(tree, zero, func(l, z Sc) Sc {
		if !zeroInit {
			_, inner := l.S.ArrParts()
			return Sc{sto(l.T, r, ex.vc.Fresh("content", inner)), l.S}
		}
		return Sc{sto(l.T, r, zeroOf(ArrS(BV(64), z.S))), l.S}
	})
	ex.setHeapTree(st, AElems, el, nt)
	return &Agg{F: []Val{Sc{r, SRef}, Sc{z64(), BV(64)}, Sc{ex.vc.Bind("len", BV(64), ln), BV(64)}, Sc{ex.vc.Bind("cap", BV(64), cp), BV(64)}}}
}

func (ex *Exec) doSlice(st *State, fr *Frame, x *ssa.Slice) {
	v := ex.val(fr, x.X)
	xt := x.X.Type()
	get := func(o ssa.Value, def string) string {
		if o == nil {
			return def
		}
		return ex.vc.Bind("sl", BV(64), toIdx(ex.val(fr, o), o.Type()))
	}
	switch kindOf(xt) {
	case KStr:
		s := sc(v)
		n := app("Str_len", s.T)
		lo, hi := get(x.Low, z64()), get(x.High, n)
		ex.oblige(st, fr, "slice", x.Pos(), "", and(app("bvule", lo, hi), app("bvule", hi, n)))
		sub := ex.vc.Fresh("substr", SStr)
		ex.assume(st, eq(app("Str_len", sub), app("bvsub", hi, lo)))
		ex.vc.Trust("substring content not modelled (only its length)")
		fr.regs[x] = Sc{sub, SStr}
	case KSlice:
		sv := ex.viewSlice(v, xt)
		lo, hi := get(x.Low, z64()), get(x.High, sv.ln)
		mx := get(x.Max, sv.cp)
		ex.oblige(st, fr, "slice", x.Pos(), "", and(app("bvule", lo, hi), app("bvule", hi, mx), app("bvule", mx, sv.cp)))
		noff := ex.vc.Bind("off", BV(64), app("bvadd", sv.off, lo))
		nlen := ex.vc.Bind("len", BV(64), app("bvsub", hi, lo))
		ncap := ex.vc.Bind("cap", BV(64), app("bvsub", mx, lo))
		if sv.root {
			fr.regs[x] = &Agg{F: []Val{Sc{sv.ref, SRef}, Sc{noff, BV(64)}, Sc{nlen, BV(64)}, Sc{ncap, BV(64)}}}
		} else {
			fr.regs[x] = &SliceI{A: sv.back, Off: noff, Len: nlen, Cap: ncap}
		}
	case KPtr:
		// pointer to array
		at := xt.Underlying().(*types.Pointer).Elem().Underlying().(*types.Array)
		n := bvInt(at.Len(), 64)
		lo, hi := get(x.Low, z64()), get(x.High, n)
		mx := get(x.Max, n)
		ex.oblige(st, fr, "slice", x.Pos(), "", and(app("bvule", lo, hi), app("bvule", hi, mx), app("bvule", mx, n)))
		a := ex.derefAddr(st, fr, v, xt, x.Pos(), "")
		nlen := ex.vc.Bind("len", BV(64), app("bvsub", hi, lo))
		ncap := ex.vc.Bind("cap", BV(64), app("bvsub", mx, lo))
		if a.Kind == AElems && len(a.Path) == 0 {
			fr.regs[x] = &Agg{F: []Val{Sc{a.Ref, SRef}, Sc{lo, BV(64)}, Sc{nlen, BV(64)}, Sc{ncap, BV(64)}}}
		} else {
			fr.regs[x] = &SliceI{A: a, Off: lo, Len: nlen, Cap: ncap}
		}
	default:
		ex.unsupportedf("slice of %v", xt)
	}
}

// ---------------------------------------------------------------------------

func (ex *Exec) doTypeAssert(st *State, fr *Frame, x *ssa.TypeAssert) {
	v := ex.val(fr, x.X)
	h := sc(v).T
	var payload Val
	okT := ex.vc.Fresh("assertok", SBool)
	if rec, has := ex.ifacePayload[h]; has && types.Identical(rec.t, x.AssertedType) {
		payload = rec.v
		okT = "true"
	} else if rec, has := ex.ifacePayload[h]; has && !types.IsInterface(x.AssertedType) {
		payload = zeroVal(x.AssertedType)
		okT = "false"
		_ = rec
	} else if types.IsInterface(x.AssertedType) {
		payload = v
	} else {
		payload = ex.freshVal(x.AssertedType, "asserted")
	}
	if x.CommaOk {
		if okT != "true" && okT != "false" {
			zero := zeroVal(x.AssertedType)
			if !isExecOnly(payload) {
				payload = leafZip(payload, zero, func(p, z Sc) Sc { return Sc{ite(okT, p.T, z.T), p.S} })
			}
		}
		fr.regs[x] = &Agg{F: []Val{payload, Sc{okT, SBool}}}
		return
	}
	if okT != "true" {
		// A failed assertion panics. The dynamic type of an opaque interface
		// value is not modelled: assumed to succeed, and listed.
		ex.vc.Trust("non-comma-ok type assertion assumed to succeed: " + ex.srcText(x.Pos()) + " in " + funcName(fr.fn))
	}
	fr.regs[x] = payload
}

// ---------------------------------------------------------------------------
// arithmetic

func (ex *Exec) binop(st *State, fr *Frame, op token.Token, a, b Val, ta, tb types.Type, pos token.Pos, ins ssa.Instruction) Val {
	switch op {
	case token.EQL:
		return Sc{ex.valEq(a, b, ta), SBool}
	case token.NEQ:
		return Sc{not(ex.valEq(a, b, ta)), SBool}
	}
	x, y := sc(a), sc(b)
	switch {
	case x.S == SBool:
		switch op {
		case token.AND, token.LAND:
			return Sc{and(x.T, y.T), SBool}
		case token.OR, token.LOR:
			return Sc{or(x.T, y.T), SBool}
		}
	case x.S == SFP:
		switch op {
		case token.ADD:
			return Sc{app("fp.add", "RNE", x.T, y.T), SFP}
		case token.SUB:
			return Sc{app("fp.sub", "RNE", x.T, y.T), SFP}
		case token.MUL:
			return Sc{ex.fpMul(x.T, y.T), SFP}
		case token.QUO:
			return Sc{ex.fpDiv(x.T, y.T), SFP}
		case token.LSS:
			return Sc{app("fp.lt", x.T, y.T), SBool}
		case token.LEQ:
			return Sc{app("fp.leq", x.T, y.T), SBool}
		case token.GTR:
			return Sc{app("fp.gt", x.T, y.T), SBool}
		case token.GEQ:
			return Sc{app("fp.geq", x.T, y.T), SBool}
		}
	case x.S == SStr:
		switch op {
		case token.ADD:
			r := ex.vc.Fresh("concat", SStr)
			ex.assume(st, eq(app("Str_len", r), app("bvadd", app("Str_len", x.T), app("Str_len", y.T))))
			ex.vc.Trust("string concatenation content not modelled (only its length)")
			return Sc{r, SStr}
		case token.LSS, token.LEQ, token.GTR, token.GEQ:
			return Sc{ex.vc.Fresh("strcmp", SBool), SBool}
		}
	case x.S.IsBV():
		signed := isSigned(ta) || kindOf(ta) == KTime // instants are signed counts
		w := x.S.Width()
		pick := func(s, u string) string {
			if signed {
				return s
			}
			return u
		}
		switch op {
		case token.ADD:
			return Sc{app("bvadd", x.T, y.T), x.S}
		case token.SUB:
			return Sc{app("bvsub", x.T, y.T), x.S}
		case token.MUL:
			return Sc{app("bvmul", x.T, y.T), x.S}
		case token.QUO:
			ex.oblige(st, fr, "div", pos, "", not(eq(y.T, bvInt(0, w))))
			return Sc{app(pick("bvsdiv", "bvudiv"), x.T, y.T), x.S}
		case token.REM:
			ex.oblige(st, fr, "div", pos, "", not(eq(y.T, bvInt(0, w))))
			return Sc{app(pick("bvsrem", "bvurem"), x.T, y.T), x.S}
		case token.AND:
			return Sc{app("bvand", x.T, y.T), x.S}
		case token.OR:
			return Sc{app("bvor", x.T, y.T), x.S}
		case token.XOR:
			return Sc{app("bvxor", x.T, y.T), x.S}
		case token.AND_NOT:
			return Sc{app("bvand", x.T, app("bvnot", y.T)), x.S}
		case token.SHL, token.SHR:
			yw := y.S.Width()
			if isSigned(tb) {
				ex.oblige(st, fr, "shift", pos, "", app("bvsge", y.T, bvInt(0, yw)))
			}
			// compare the count in max(w, yw) bits
			cw := w
			if yw > cw {
				cw = yw
			}
			cnt := resize(y.T, yw, cw, false)
			big := app("bvuge", cnt, bvInt(int64(w), cw))
			amt := resize(cnt, cw, w, false)
			if op == token.SHL {
				return Sc{ite(big, bvInt(0, w), app("bvshl", x.T, amt)), x.S}
			}
			if signed {
				return Sc{ite(big, app("bvashr", x.T, bvInt(int64(w-1), w)), app("bvashr", x.T, amt)), x.S}
			}
			return Sc{ite(big, bvInt(0, w), app("bvlshr", x.T, amt)), x.S}
		case token.LSS:
			return Sc{app(pick("bvslt", "bvult"), x.T, y.T), SBool}
		case token.LEQ:
			return Sc{app(pick("bvsle", "bvule"), x.T, y.T), SBool}
		case token.GTR:
			return Sc{app(pick("bvsgt", "bvugt"), x.T, y.T), SBool}
		case token.GEQ:
			return Sc{app(pick("bvsge", "bvuge"), x.T, y.T), SBool}
		}
	}
	ex.unsupportedf("binary op %v on %v", op, ta)
	return nil
}

// fpMul / fpDiv: real IEEE semantics by default; with -fpuf the two
// operations are uninterpreted (level 1 of the C16 scheme).
func (ex *Exec) fpMul(a, b string) string {
	if ex.fpUF {
		ex.vc.DeclareFun("FMul", []Sort{SFP, SFP}, SFP)
		return app("FMul", a, b)
	}
	return app("fp.mul", "RNE", a, b)
}

func (ex *Exec) fpDiv(a, b string) string {
	if ex.fpUF {
		ex.vc.DeclareFun("FDiv", []Sort{SFP, SFP}, SFP)
		return app("FDiv", a, b)
	}
	return app("fp.div", "RNE", a, b)
}

// valEq is Go's == on two values of the same type.
func (ex *Exec) valEq(a, b Val, t types.Type) string {
	if isExecOnly(a) || isExecOnly(b) {
		// pointer comparison of interior pointers
		pa, ok1 := a.(*PtrI)
		pb, ok2 := b.(*PtrI)
		if ok1 && ok2 {
			if pa.A.String() == pb.A.String() {
				return "true"
			}
		}
		if ok1 {
			if s, ok := b.(Sc); ok && s.T == z64() {
				return "false"
			}
		}
		if ok2 {
			if s, ok := a.(Sc); ok && s.T == z64() {
				return "false"
			}
		}
		if _, ok := a.(*Clo); ok {
			return "false" // func == nil
		}
		ex.unsupportedf("comparison of exec-only values %T %T", a, b)
	}
	if kindOf(t) == KSlice {
		// Go only allows s == nil; contracts also compare slice headers
		aa, ok1 := a.(*Agg)
		bb, ok2 := b.(*Agg)
		if ok1 && ok2 {
			if sc(bb.F[0]).T == z64() {
				return eq(sc(aa.F[0]).T, z64())
			}
			if sc(aa.F[0]).T == z64() {
				return eq(sc(bb.F[0]).T, z64())
			}
			return and(eq(sc(aa.F[0]).T, sc(bb.F[0]).T), eq(sc(aa.F[1]).T, sc(bb.F[1]).T), eq(sc(aa.F[2]).T, sc(bb.F[2]).T), eq(sc(aa.F[3]).T, sc(bb.F[3]).T))
		}
		if ok1 {
			return eq(sc(aa.F[0]).T, z64())
		}
		return eq(sc(bb.F[0]).T, z64())
	}
	// nil constant against slice comes as Agg zero; handled above. Generic:
	la, lb := leavesOf(a), leavesOf(b)
	if len(la) != len(lb) {
		ex.unsupportedf("== on values of different shapes")
	}
	var cs []string
	for i := range la {
		if la[i].S == SFP && !(ex.specEq && (len(la) > 1 || ex.specBits)) {
			cs = append(cs, app("fp.eq", la[i].T, lb[i].T))
		} else if la[i].S.IsArr() {
			// array-valued leaf of a non-packed array: element-wise over its length
			cs = append(cs, ex.arrLeafEq(la[i], lb[i], t))
		} else {
			cs = append(cs, eq(la[i].T, lb[i].T))
		}
	}
	return and(cs...)
}

func (ex *Exec) arrLeafEq(a, b Sc, t types.Type) string {
	n := arrayLenWithin(t)
	if n < 0 {
		ex.unsupportedf("== on an array-valued leaf of unknown length in %v", t)
	}
	_, es := a.S.ArrParts()
	if n <= 64 {
		var cs []string
		for i := int64(0); i < n; i++ {
			x, y := sel(a.T, bvInt(i, 64)), sel(b.T, bvInt(i, 64))
			if es == SFP {
				cs = append(cs, app("fp.eq", x, y))
			} else {
				cs = append(cs, eq(x, y))
			}
		}
		return and(cs...)
	}
	q := "(forall ((qi (_ BitVec 64))) (=> (bvult qi " + bvInt(n, 64) + ") "
	if es == SFP {
		q += app("fp.eq", sel(a.T, "qi"), sel(b.T, "qi"))
	} else {
		q += eq(sel(a.T, "qi"), sel(b.T, "qi"))
	}
	return q + "))"
}

// arrayLenWithin finds the length of the (single) non-packed array inside t.
func arrayLenWithin(t types.Type) int64 {
	switch kindOf(t) {
	case KArr:
		return t.Underlying().(*types.Array).Len()
	case KStruct:
		s := t.Underlying().(*types.Struct)
		for i := 0; i < s.NumFields(); i++ {
			if n := arrayLenWithin(s.Field(i).Type()); n >= 0 {
				return n
			}
		}
	}
	return -1
}

func (ex *Exec) convert(st *State, fr *Frame, v Val, from, to types.Type, ins ssa.Instruction) Val {
	kf, kt := kindOf(from), kindOf(to)
	switch {
	case kf == KScalar && kt == KScalar:
		s := sc(v)
		ts := scalarSort(to)
		switch {
		case s.S.IsBV() && ts.IsBV():
			return Sc{resize(s.T, s.S.Width(), ts.Width(), isSigned(from)), ts}
		case s.S.IsBV() && ts == SFP:
			if isSigned(from) {
				return Sc{app("(_ to_fp 11 53)", "RNE", s.T), SFP}
			}
			return Sc{app("(_ to_fp_unsigned 11 53)", "RNE", s.T), SFP}
		case s.S == SFP && ts.IsBV():
			return ex.floatToInt(st, s.T, to, ts)
		case s.S == ts:
			return v
		}
	case kf == KStr && kt == KSlice:
		return ex.stringToBytes(st, sc(v).T, to)
	case kf == KSlice && kt == KStr:
		sv := ex.viewSlice(v, from)
		r := ex.vc.Fresh("str", SStr)
		ex.assume(st, eq(app("Str_len", r), sv.ln))
		if n, ok := constBV(sv.ln); ok && n <= 64 {
			for i := int64(0); i < int64(n); i++ {
				ex.assume(st, eq(app("Str_at", r, bvInt(i, 64)), sc(ex.load(st, sv.elemAddr(bvInt(i, 64)))).T))
			}
		} else {
			ex.vc.Trust("string(bytes) content modelled only for constant lengths <= 64")
		}
		return Sc{r, SStr}
	case kf == KScalar && kt == KStr:
		// string(rune)
		r := ex.vc.Fresh("runestr", SStr)
		ex.assume(st, app("bvule", app("Str_len", r), bvInt(4, 64)))
		return Sc{r, SStr}
	case kf == kt:
		return v
	case (kf == KPtr) != (kt == KPtr):
		// unsafe.Pointer <-> uintptr
		return v
	}
	ex.unsupportedf("conversion %v -> %v", from, to)
	return nil
}

// floatToInt: conversion is exact truncation toward zero when the truncated
// value fits the target's signed range; otherwise implementation defined (an
// unconstrained value). For unsigned targets the amd64 rule for values that
// fit int64 is two's complement truncation (assumption A9).
func (ex *Exec) floatToInt(st *State, f string, to types.Type, ts Sort) Val {
	w := ts.Width()
	trunc := ex.vc.Bind("trunc", SFP, app("fp.roundToIntegral", "RTZ", f))
	lo := app("(_ to_fp 11 53)", "RNE", bvLit(new(bigInt).Neg(new(bigInt).Lsh(bigOne, uint(w-1))), w+1))
	hi := app("(_ to_fp 11 53)", "RNE", bvLit(new(bigInt).Lsh(bigOne, uint(w-1)), w+1))
	fits := ex.vc.Bind("fits", SBool, and(app("fp.leq", lo, trunc), app("fp.lt", trunc, hi)))
	other := ex.vc.Fresh("fconv_undef", ts)
	if !isSigned(to) {
		ex.vc.Trust("A9: uint(float64) for values that fit the signed range is two's-complement truncation (amd64)")
	}
	return Sc{ite(fits, app(fmt.Sprintf("(_ fp.to_sbv %d)", w), "RTZ", f), other), ts}
}

func (ex *Exec) stringToBytes(st *State, s string, to types.Type) Val {
	n := app("Str_len", s)
	for lit, name := range ex.vc.strLits {
		if name == s {
			n = bvInt(int64(len(lit)), 64)
			sl := ex.newSlice(st, to, n, n, "bytes").(*Agg)
			sv := ex.viewSlice(sl, to)
			for i := 0; i < len(lit); i++ {
				ex.store(st, sv.elemAddr(bvInt(int64(i), 64)), Sc{bvInt(int64(lit[i]), 8), BV(8)})
			}
			return sl
		}
	}
	sl := ex.newSliceRaw(st, to, n, n, "bytes", false).(*Agg)
	r := sc(sl.F[0]).T
	tree := ex.heapTree(st, AElems, to.Underlying().(*types.Slice).Elem())
	m := sc(tree).T
	ex.assume(st, fmt.Sprintf("(forall ((qi (_ BitVec 64))) (! (=> (bvult qi %s) (= (select (select %s %s) qi) (Str_at %s qi))) :pattern ((select (select %s %s) qi))))", n, m, r, s, m, r))
	return sl
}

// calleeLabel names the callee of a call the way assert_before_call selects it.
func calleeLabel(c *ssa.CallCommon) string {
	if c.IsInvoke() {
		return fmt.Sprintf("(%s).%s", types.TypeString(c.Value.Type(), nil), c.Method.Name())
	}
	if f := c.StaticCallee(); f != nil {
		return fullName(f)
	}
	if b, ok := c.Value.(*ssa.Builtin); ok {
		return b.Name()
	}
	return ""
}

// callAsserts: program-point assertions of the verified function's contract
// placed right before a call (assert_before_call CALLEE#k expr).
func (ex *Exec) callAsserts(st *State, fr *Frame, x *ssa.Call) {
	top := ex.topFrame
	if top == nil || top.ct == nil || fr != top || len(top.ct.CallAsserts) == 0 {
		return
	}
	label := calleeLabel(x.Common())
	for _, ca := range top.ct.CallAsserts {
		if !strings.Contains(label, ca.Callee) {
			continue
		}
		if ca.Ordinal > 0 {
			// ordinal among the matching calls of the function, in source order
			n := 0
			var ps []token.Pos
			for _, b := range top.fn.Blocks {
				for _, in := range b.Instrs {
					if c2, ok := in.(*ssa.Call); ok && strings.Contains(calleeLabel(c2.Common()), ca.Callee) {
						ps = append(ps, c2.Pos())
					}
				}
			}
			sort.Slice(ps, func(i, j int) bool { return ps[i] < ps[j] })
			for i, p := range ps {
				if p == x.Pos() {
					n = i + 1
				}
			}
			if n != ca.Ordinal {
				continue
			}
		}
		for _, part := range ex.splitClauseE(top, st, nil, ca.Clause) {
			term := part.term
			if sk, ok := ex.skolemWithHyps(fr, st, part); ok {
				term = sk
			}
			o := ex.oblige(st, fr, "assert-before-call("+ca.Callee+")", x.Pos(), part.text, term)
			if o != nil && len(ca.Clause.Props) > 0 {
				o.Props = ca.Clause.Props
			}
		}
	}
}
