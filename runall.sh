#!/bin/sh
# usage: ./runall.sh [quick|thorough] [ids...]   runs the claimed checks one after another and prints a summary
cd "$(dirname "$0")"
tier="${1:-quick}"; shift 2>/dev/null
ids="$@"
[ -z "$ids" ] && ids=$(jq -r '.checks[].property_id' MANIFEST.json)
mkdir -p .scratch
for p in $ids; do
  s=$(date +%s)
  ./check $p $tier > .scratch/run_$p.log 2>&1; rc=$?
  e=$(date +%s)
  echo "$p exit=$rc $((e-s))s $(tail -1 .scratch/run_$p.log)"
  grep -E "^VIOLATION|^KNOWN-FINDING" .scratch/run_$p.log | cut -c1-300
done
